package sim

import (
	"fmt"

	"verifsim/refotr"
)

// C05, foreign-peer mode: the peer is another implementation (the reference),
// which may send what otr3 itself never sends - above all data messages that
// carry a text together with the IGNORE_UNREADABLE flag, or text and TLVs in
// one message. The re-delivery rules are the same: whatever was accepted once
// yields nothing the second time.

func c05Foreign(rc *RunCtx) *Violation {
	cfgs := append([]PartyCfg{}, rc.Parties...)
	cfgs[0].Frag, cfgs[1].Frag = 0, 0
	cfgs[1].Ref = true
	if cfgs[1].Pol&PolV3 == 0 {
		cfgs[1].Pol = PolV2
	} else {
		cfgs[1].Pol = PolV3
		cfgs[0].Pol = cfgs[0].Pol&^PolV2 | PolV3
	}
	cfgs[0].Pol &^= PolReqEnc
	w := rc.NewWorld(cfgs)
	a, b := w.P[0], w.P[1]
	if !w.Handshake(rc.Cfg["starter"] % 2) {
		return rc.Viol("setup.handshake", "AKE with the reference peer did not complete", nil)
	}
	var viol *Violation
	accepted := map[int]bool{}
	counts := map[string]int{}
	redeliveries, flagged := 0, 0
	w.Observers = append(w.Observers, func(p *Party, r *CallResult) {
		if viol != nil || p != a || r.Kind != "recv" || w.CurWire == nil {
			return
		}
		x := w.CurWire
		id := x.ID
		if x.Origin >= 0 {
			id = x.Origin
		}
		if r.Plain != nil {
			counts[string(r.Plain)]++
			if counts[string(r.Plain)] > 1 {
				viol = rc.Viol("delivered.twice", fmt.Sprintf("A.Receive returned the text %s a second time (wire %d, %s; sent by another implementation, flags per note)", short(r.Plain), x.ID, x.Note), map[string]string{"via": "foreign:" + x.Class})
				return
			}
		}
		if !dataTyped(x.Bytes) {
			return
		}
		acted := actedEvents(r)
		if accepted[id] {
			redeliveries++
			switch {
			case r.Plain != nil:
				viol = rc.Viol("redelivery.plaintext", fmt.Sprintf("A.Receive returned %s for a message it had already accepted (err=%q)", short(r.Plain), r.Err), map[string]string{"via": "foreign:" + x.Class})
			case len(acted) > 0:
				viol = rc.Viol("redelivery.tlv-reapplied", fmt.Sprintf("A re-applied the TLVs of a message it had already accepted: events %v", acted), map[string]string{"event": acted[0]})
			case hasDataOut(r):
				viol = rc.Viol("redelivery.answered", "A answered a re-delivered message with a data message", nil)
			}
			return
		}
		if r.Plain != nil || len(acted) > 0 || r.Err == "" {
			accepted[id] = true
		}
	})
	kinds := ""
	gen := func() (Step, bool) {
		r := rc.Rng
		if len(rc.Steps) > 30+r.Intn(60) {
			return Step{}, false
		}
		fly := [2]int{w.InFlight(0, 1), w.InFlight(1, 0)}
		// fsend asend delAB delBA redeliver tick
		wt := []int{10, 6, 10, 14, 10, 1}
		if fly[0] == 0 {
			wt[2] = 0
		}
		if fly[1] == 0 {
			wt[3] = 0
		}
		switch r.Pick(wt) {
		case 0:
			return Step{K: "fsend", A: r.Intn(4), B: r.Intn(3)}, true
		case 1:
			return Step{K: "send", A: 0, B: 1 + r.Intn(3)}, true
		case 2:
			return Step{K: "deliver", A: 0, B: 1}, true
		case 3:
			return Step{K: "deliver", A: 1, B: 0}, true
		case 4:
			return Step{K: "redeliver", A: r.Intn(1 << 16)}, true
		default:
			return Step{K: "tick", A: r.Intn(len(tickDur))}, true
		}
	}
	for {
		s, ok := rc.NextStep(gen)
		if !ok {
			break
		}
		switch s.K {
		case "fsend":
			if !b.Ref.Encrypted {
				continue
			}
			spec := refotr.DataSpec{Text: w.GenText(b, 1+s.B%3, 0)}
			cls := "plain"
			switch s.A % 4 {
			case 1:
				spec.Flags = refotr.FlagIgnoreUnreadable
				cls = "text+ignore-unreadable"
				flagged++
			case 2:
				spec.TLVs = []refotr.TLV{{Type: 0, Value: []byte{0, 0, 0}}}
				cls = "text+padding"
			case 3:
				spec.Flags = refotr.FlagIgnoreUnreadable
				spec.Text = nil
				spec.TLVs = []refotr.TLV{{Type: 0, Value: []byte{1}}}
				cls = "heartbeat"
			}
			d, err := b.Ref.BuildData(spec)
			if err != nil {
				continue
			}
			x := w.Put(1, 0, refotr.Armor(d.Raw()), true, -1, -1, "foreign:"+cls)
			x.Class = cls
		case "redeliver":
			// a copy of a data message A has already been given arrives again
			var cands []*Wire
			for _, x := range w.Arch {
				if x.To == 0 && x.Delivered > 0 && x.Origin < 0 && dataTyped(x.Bytes) {
					cands = append(cands, x)
				}
			}
			if len(cands) == 0 {
				continue
			}
			src := cands[s.A%len(cands)]
			y := &Wire{ID: w.nextWire, From: 1, To: 0, Bytes: cp(src.Bytes), Genuine: true, Parent: src.ID, Call: -1, Note: "redelivered " + src.Note, Origin: src.ID, Class: src.Class}
			w.nextWire++
			w.Arch = append(w.Arch, y)
			w.Fault("redelivery")
			w.Deliver(y)
		case "deliver":
			s.C = 0
			w.Exec(s)
		default:
			w.Exec(s)
		}
		kinds += s.K[:2]
		if viol != nil {
			return viol
		}
	}
	w.Drain(3000)
	if viol != nil {
		return viol
	}
	rc.Stats.Nontrivial = redeliveries >= 3
	rc.Stats.Sig = fmt.Sprintf("foreign v%d %s", rc.Cfg["version"], kinds)
	rc.ProbeN("redeliveries_of_accepted_messages", redeliveries)
	rc.ProbeN("foreign_texts_with_ignore_unreadable_flag", flagged)
	rc.Probe("foreign_peer_runs")
	return nil
}
