package sim

import (
	"bytes"
	"encoding/base64"
	"encoding/binary"
	"fmt"
	"math/big"

	"verifsim/refotr"
)

// Attacker toolkit (Dolev-Yao on the links): structure-aware mutation of
// messages in flight and forgery from whatever key material an attacker can
// have (MAC keys disclosed on the wire, keys of retired pairs, keys of other
// sessions). All choices are integers taken from the recorded step.

const nMutators = 22

var mutNames = []string{"bitflip", "truncate", "extend", "version", "type", "sender-tag", "receiver-tag", "flags",
	"sender-keyid", "recipient-keyid", "next-dh", "counter", "ciphertext", "mac", "oldmac-tail", "trailing",
	"reMAC-known-key", "forge-fresh", "armour", "armour-junk", "ctr+reMAC-known-key", "keyid+reMAC-known-key"}

// Candidate MAC keys an attacker can know: every key disclosed in an "old MAC
// keys" field so far, MAC keys of retired key pairs, and keys of earlier sessions.
func (o *Omni) attackerKeys(sender int) [][]byte {
	var ks [][]byte
	if o == nil {
		return [][]byte{make([]byte, 20)}
	}
	add := func(k []byte) {
		for _, x := range ks {
			if bytes.Equal(x, k) {
				return
			}
		}
		ks = append(ks, k)
	}
	for _, s := range o.Sh {
		for _, c := range s.Sess {
			for _, k := range c.Shown {
				add(k)
			}
		}
	}
	// keys of pairs the VICTIM (the receiver of the forgery) has retired: it would
	// no longer accept a message under them. Ours/Theirs are from the victim's view.
	s := o.Sh[1-sender]
	if s.Peer != nil {
		for si, c := range s.Sess {
			last := si == len(s.Sess)-1 && (s.Peer.Encrypted || s.Peer.Finished)
			for oi := uint32(1); oi <= 60; oi++ {
				if _, ok := c.Ours[oi]; !ok {
					continue
				}
				for ti := uint32(1); ti <= 60; ti++ {
					k, ok := c.PairKeys(oi, ti)
					if !ok {
						continue
					}
					retired := !last || oi+1 < s.Peer.OurKeyID || ti+1 < s.Peer.TheirKeyID
					if retired {
						add(k.SendMAC)
						add(k.RecvMAC)
					}
				}
			}
		}
	}
	add(make([]byte, 20))
	return ks
}

type Mutation struct {
	Bytes       []byte
	Class       string
	AuthChanged bool // the authenticated range (or the MAC) differs from the original, or the message no longer parses
}

func rearm(m interface{}) []byte { return refotr.Armor(refotr.RawOf(m)) }

// MutateData applies mutator mut with argument arg to an armoured data message.
func MutateData(o *Omni, sender int, orig []byte, mut, arg int) Mutation {
	mut %= nMutators
	if mut < 0 {
		mut = -mut
	}
	res := Mutation{Class: mutNames[mut], AuthChanged: true}
	raw, err := refotr.Dearmor(orig)
	if err != nil || len(raw) < 4 {
		res.Bytes = append(cp(orig), 'x')
		return res
	}
	pm, perr := refotr.ParseRaw(raw)
	d, isData := pm.(*refotr.Data)
	byteMut := func() {
		switch mut % 3 {
		case 0:
			i := arg % (len(raw) * 8)
			raw[i/8] ^= 1 << uint(i%8)
			res.Class = "bitflip"
		case 1:
			raw = raw[:arg%len(raw)]
			res.Class = "truncate"
		case 2:
			raw = append(raw, bytes.Repeat([]byte{byte(arg)}, 1+arg%9)...)
			res.Class = "extend"
		}
		res.Bytes = refotr.Armor(raw)
	}
	if perr != nil || !isData {
		byteMut()
		return res
	}
	origAuth := append(cp(d.AuthBytes()), d.MAC...)
	finish := func() Mutation {
		res.Bytes = rearm(d)
		res.AuthChanged = !bytes.Equal(origAuth, append(cp(d.AuthBytes()), d.MAC...))
		return res
	}
	remac := func() bool {
		ks := o.attackerKeys(sender)
		if len(ks) == 0 {
			return false
		}
		k := ks[(arg/7)%len(ks)]
		d.MAC = refotr.DataMAC(k, d.AuthBytes())
		return true
	}
	deltas := []int64{1, -1, 2, -2, 1000}
	switch mut {
	case 0, 1, 2:
		byteMut()
		if mut == 0 {
			// a flip may land in the unauthenticated tail
			if m2, err := refotr.ParseRaw(raw); err == nil {
				if d2, ok := m2.(*refotr.Data); ok {
					res.AuthChanged = !bytes.Equal(origAuth, append(cp(d2.AuthBytes()), d2.MAC...))
				}
			}
		}
		return res
	case 3:
		d.Version = []uint16{1, 2, 3, 4, 0, 0x0103}[arg%6]
		if d.Version == 2 || d.Version == 3 {
			// Header.Bytes emits tags only for v3; switching versions changes the layout
		}
	case 4:
		d.Type = []byte{0x02, 0x0a, 0x11, 0x12, 0x00, 0xff, 0x04}[arg%7]
	case 5:
		d.SenderTag = []uint32{0, 1, 0xff, d.SenderTag + 1, d.ReceiverTag, 0x100, 0xffffffff}[arg%7]
	case 6:
		d.ReceiverTag = []uint32{0, 1, 0xff, d.ReceiverTag + 1, d.SenderTag, 0x100, 0xffffffff}[arg%7]
	case 7:
		d.Flags ^= []byte{1, 2, 0x80, 0xff}[arg%4]
	case 8:
		d.SenderKeyID = uint32(int64(d.SenderKeyID) + deltas[arg%5])
	case 9:
		d.RecipientKeyID = uint32(int64(d.RecipientKeyID) + deltas[arg%5])
	case 10:
		d.NextDH = []*big.Int{new(big.Int).Add(d.NextDH, big.NewInt(1)), big.NewInt(0), big.NewInt(1), new(big.Int).Sub(refotr.P, big.NewInt(1)), new(big.Int).Set(refotr.P), big.NewInt(2)}[arg%6]
	case 11:
		c := binary.BigEndian.Uint64(d.Ctr[:])
		c = []uint64{c + 1, c - 1, 0, ^uint64(0), c + 1000, c << 32}[arg%6]
		binary.BigEndian.PutUint64(d.Ctr[:], c)
	case 12:
		switch arg % 3 {
		case 0:
			if len(d.Enc) > 0 {
				i := (arg / 3) % (len(d.Enc) * 8)
				d.Enc[i/8] ^= 1 << uint(i%8)
			} else {
				d.Enc = []byte{1}
			}
		case 1:
			if len(d.Enc) > 0 {
				d.Enc = d.Enc[:len(d.Enc)-1]
			}
		case 2:
			d.Enc = append(d.Enc, byte(arg))
		}
	case 13:
		i := arg % 160
		d.MAC[i/8] ^= 1 << uint(i%8)
	case 14:
		if arg%2 == 0 {
			d.OldMACKeys = append(d.OldMACKeys, bytes.Repeat([]byte{byte(arg)}, 20)...)
		} else {
			d.OldMACKeys = nil
		}
	case 15:
		// trailing bytes are not representable in the strict model: append to the raw form
		res.Bytes = refotr.Armor(append(refotr.RawOf(d), bytes.Repeat([]byte{7}, 1+arg%5)...))
		res.AuthChanged = false
		return res
	case 16:
		// change the content, then authenticate it with a key the attacker knows
		if len(d.Enc) > 0 {
			d.Enc[arg%len(d.Enc)] ^= 0x20
		}
		if !remac() {
			d.MAC[0] ^= 1
		}
	case 17:
		// a fresh message: future counter, chosen key ids, attacker-known MAC key
		c := binary.BigEndian.Uint64(d.Ctr[:]) + uint64(1+arg%5)
		binary.BigEndian.PutUint64(d.Ctr[:], c)
		switch (arg / 5) % 4 {
		case 1:
			if d.SenderKeyID > 1 {
				d.SenderKeyID--
			}
		case 2:
			if d.RecipientKeyID > 1 {
				d.RecipientKeyID--
			}
		case 3:
			d.SenderKeyID++
		}
		d.Enc = []byte(fmt.Sprintf("forged-%d\x00\x00\x01\x00\x00", arg))
		if !remac() {
			d.MAC[1] ^= 1
		}
	case 18:
		a := cp(orig)
		switch arg % 4 {
		case 0:
			a[5+(arg/4)%(len(a)-6)] = '!'
		case 1:
			a = a[:len(a)-1] // no trailing '.'
		case 2:
			a = append(a[:len(a)-2], '.') // drop one base64 character
		case 3:
			a = append(a[:len(a)-1], '=', '.')
		}
		res.Bytes = a
		return res
	case 19:
		res.Bytes = append(cp(orig), []byte("junk")...)
		return res
	case 20:
		c := binary.BigEndian.Uint64(d.Ctr[:])
		binary.BigEndian.PutUint64(d.Ctr[:], c+uint64(1+arg%3))
		if !remac() {
			d.MAC[2] ^= 1
		}
	case 21:
		if arg%2 == 0 && d.SenderKeyID > 1 {
			d.SenderKeyID--
		} else if d.RecipientKeyID > 1 {
			d.RecipientKeyID--
		}
		if !remac() {
			d.MAC[3] ^= 1
		}
	}
	return finish()
}

// MutateAny mutates any transport message (AKE message, fragment, query ...)
// at the byte level, or at the field level for data messages.
func MutateAny(o *Omni, sender int, orig []byte, mut, arg int) Mutation {
	if refotr.IsArmored(orig) {
		if raw, err := refotr.Dearmor(orig); err == nil {
			if m, err := refotr.ParseRaw(raw); err == nil {
				if _, ok := m.(*refotr.Data); ok {
					return MutateData(o, sender, orig, mut, arg)
				}
				return mutateAKE(m, orig, mut, arg)
			}
		}
	}
	b := cp(orig)
	res := Mutation{Class: "bytes", AuthChanged: true}
	if len(b) == 0 {
		res.Bytes = []byte("?OTR:")
		return res
	}
	switch mut % 3 {
	case 0:
		b[arg%len(b)] ^= byte(1 << uint(arg%8))
	case 1:
		b = b[:arg%len(b)]
	default:
		b = append(b, byte(arg))
	}
	res.Bytes = b
	return res
}

var akeMutNames = []string{"ake-bitflip", "ake-truncate", "ake-extend", "ake-version", "ake-sender-tag", "ake-receiver-tag",
	"ake-dh-value", "ake-encsig", "ake-mac", "ake-r", "ake-hash", "ake-type"}

// mutateAKE: field-level mutation of AKE messages.
func mutateAKE(m interface{}, orig []byte, mut, arg int) Mutation {
	mut %= len(akeMutNames)
	res := Mutation{Class: akeMutNames[mut], AuthChanged: true}
	raw := refotr.RawOf(m)
	setHdr := func(f func(h *refotr.Header)) {
		switch v := m.(type) {
		case *refotr.DHCommit:
			f(&v.Header)
		case *refotr.DHKey:
			f(&v.Header)
		case *refotr.RevealSig:
			f(&v.Header)
		case *refotr.Signature:
			f(&v.Header)
		}
	}
	flip := func(b []byte) {
		if len(b) > 0 {
			i := arg % (len(b) * 8)
			b[i/8] ^= 1 << uint(i%8)
		}
	}
	bounds := []*big.Int{big.NewInt(0), big.NewInt(1), new(big.Int).Sub(refotr.P, big.NewInt(1)), new(big.Int).Set(refotr.P), new(big.Int).Add(refotr.P, big.NewInt(1)), big.NewInt(2), new(big.Int).Sub(refotr.P, big.NewInt(2))}
	switch mut {
	case 0:
		flip(raw)
		res.Bytes = refotr.Armor(raw)
		return res
	case 1:
		res.Bytes = refotr.Armor(raw[:arg%len(raw)])
		return res
	case 2:
		res.Bytes = refotr.Armor(append(raw, byte(arg), 0, 0))
		return res
	case 3:
		setHdr(func(h *refotr.Header) { h.Version = []uint16{1, 2, 3, 4}[arg%4] })
	case 4:
		setHdr(func(h *refotr.Header) { h.SenderTag = []uint32{0, 1, 0xff, h.SenderTag + 1, 0x100}[arg%5] })
	case 5:
		setHdr(func(h *refotr.Header) { h.ReceiverTag = []uint32{1, 0xff, h.ReceiverTag + 1, 0x100, 0}[arg%5] })
	case 6:
		if v, ok := m.(*refotr.DHKey); ok {
			v.Gy = bounds[arg%len(bounds)]
		} else {
			flip(raw[len(raw)/2:])
			res.Bytes = refotr.Armor(raw)
			return res
		}
	case 7:
		switch v := m.(type) {
		case *refotr.RevealSig:
			flip(v.EncSig)
		case *refotr.Signature:
			flip(v.EncSig)
		case *refotr.DHCommit:
			flip(v.EncGx)
		case *refotr.DHKey:
			v.Gy = new(big.Int).Add(v.Gy, big.NewInt(1))
		}
	case 8:
		switch v := m.(type) {
		case *refotr.RevealSig:
			flip(v.MAC)
		case *refotr.Signature:
			flip(v.MAC)
		default:
			flip(raw)
			res.Bytes = refotr.Armor(raw)
			return res
		}
	case 9:
		if v, ok := m.(*refotr.RevealSig); ok {
			flip(v.R)
		} else {
			res.Bytes = refotr.Armor(append(raw[:len(raw)-1], raw[len(raw)-1]^1))
			return res
		}
	case 10:
		if v, ok := m.(*refotr.DHCommit); ok {
			flip(v.HashGx)
		} else {
			res.Bytes = refotr.Armor(raw[:len(raw)-1])
			return res
		}
	case 11:
		setHdr(func(h *refotr.Header) { h.Type = []byte{0x02, 0x0a, 0x11, 0x12, 0x03}[arg%5] })
	}
	res.Bytes = rearm(m)
	if bytes.Equal(res.Bytes, orig) {
		res.Bytes = append(cp(orig), 'x')
	}
	return res
}

// parseDataLenient parses an armoured data message the way a tolerant receiver
// may: line breaks inside the base64 body are skipped and bytes after the
// old-MAC-keys field are ignored. Everything up to and including the MAC is
// parsed exactly. It returns the message and the authenticated part + MAC.
func parseDataLenient(armoured []byte) (*refotr.Data, []byte, bool) {
	// A tolerant receiver: whatever follows the base64 body as its final byte is
	// dropped (normally the '.'), line breaks inside the body are skipped.
	if !bytes.HasPrefix(armoured, []byte("?OTR:")) || len(armoured) < 7 {
		return nil, nil, false
	}
	body := armoured[5 : len(armoured)-1]
	raw := make([]byte, base64.StdEncoding.DecodedLen(len(body)))
	n, err := base64.StdEncoding.Decode(raw, body)
	if err != nil {
		return nil, nil, false
	}
	raw = raw[:n]
	h, rd, err := refotr.ParseHeader(raw)
	if err != nil || h.Type != refotr.TypeData {
		return nil, nil, false
	}
	d := &refotr.Data{Header: h}
	d.Flags = rd.Byte()
	d.SenderKeyID = rd.Int()
	d.RecipientKeyID = rd.Int()
	d.NextDH = rd.MPILoose()
	copy(d.Ctr[:], rd.Fixed(8))
	d.Enc = rd.Data()
	d.MAC = rd.Fixed(20)
	if rd.Err != nil {
		return nil, nil, false
	}
	authLen := len(raw) - len(rd.B)
	d.OldMACKeys = rd.Data()
	if rd.Err != nil || len(d.OldMACKeys)%20 != 0 {
		return nil, nil, false
	}
	d.Trailing = rd.Rest()
	return d, raw[:authLen], true
}

// authPart returns the authenticated range plus MAC of an armoured data
// message (lenient about what follows), or false if there is none.
func authPart(armoured []byte) ([]byte, bool) {
	_, a, ok := parseDataLenient(armoured)
	return a, ok
}

// parseAKELenient parses a DH-Commit or DH-Key message ignoring bytes after the
// last field (a tolerant receiver may accept those; nothing in these messages is
// authenticated). Other AKE messages have a fixed-length tail and are strict.
func parseAKELenient(armoured []byte) (interface{}, bool) {
	if !bytes.HasPrefix(armoured, []byte("?OTR:")) || len(armoured) < 7 {
		return nil, false
	}
	body := armoured[5 : len(armoured)-1]
	raw := make([]byte, base64.StdEncoding.DecodedLen(len(body)))
	n, err := base64.StdEncoding.Decode(raw, body)
	if err != nil {
		return nil, false
	}
	raw = raw[:n]
	h, rd, err := refotr.ParseHeader(raw)
	if err != nil {
		return nil, false
	}
	switch h.Type {
	case refotr.TypeDHCommit:
		m := &refotr.DHCommit{Header: h}
		m.EncGx = rd.Data()
		m.HashGx = rd.Data()
		if rd.Err != nil {
			return nil, false
		}
		return m, true
	case refotr.TypeDHKey:
		m := &refotr.DHKey{Header: h}
		m.Gy = rd.MPILoose()
		if rd.Err != nil {
			return nil, false
		}
		return m, true
	}
	return nil, false
}
