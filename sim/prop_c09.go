package sim

import (
	"bytes"
	"fmt"
	"math/big"
	"os"

	"verifsim/refotr"
)

// C09 – MAC keys are disclosed only once retired, and then they are disclosed.

func init() {
	Register(&PropDef{
		ID: "C09", Title: "MAC key disclosure: only retired keys, and all used retired keys",
		Config: c09Config, Run: c09Run, MaxSteps: 140,
		Rule: "runs = PRNG-generated interleavings on reliable links (ping-pong, bursts, one-directional streams, refresh AKE while encrypted); the shadow reference knows every DH key of every session, so for every 20-byte key in an 'old MAC keys' field it decides which key pair it belongs to and whether the discloser would still accept that pair at that moment; after a flush every receiving MAC key that verified a message and whose pair is retired must have been disclosed; independently of the shadow, every disclosed key is used at once to forge data messages to the discloser for all key id pairs around those in use - none may be accepted; in a quarter of the runs a party's randomness source fails at PRNG-chosen reads (a key rotation half made) and the forgery probe alone decides; " +
			"non-trivial = at least 4 keys were disclosed and both sides retired a generation; distinct = distinct step sequences",
		Assume: []string{"disclosure at the very end of a session (End) is not demanded by the statement and not checked", "keys used in a session that was ended (by End or by the peer's disconnect) are demanded once a later session on the same conversation has sent data messages", "retired = the discloser's acceptance window (own ids our-1..our, peer ids their-1..their of the running session) no longer contains the pair"},
	})
}

func c09Config(rc *RunCtx) {
	r := rc.Rng
	rc.Cfg["version"] = []int{2, 3, 3, 23}[r.Intn(4)]
	rc.Cfg["pattern"] = r.Intn(5) // 0 mixed 1 ping-pong 2 A-only 3 bursts 4 refresh-heavy
	rc.Cfg["starter"] = r.Intn(2)
	rc.Cfg["damage"] = r.Intn(2)
	rc.Cfg["lying"] = r.Intn(4) / 3 // the peer is the reference implementation and sometimes announces the degenerate next DH key 1
	rc.Cfg["randfault"] = 0
	if rc.Cfg["lying"] == 0 && r.Chance(1, 4) {
		// the randomness source of a party fails at PRNG-chosen reads (key rotation draws a new
		// DH key); the shadow cannot follow a half-made rotation, so these runs are judged by
		// the forgery probe alone
		rc.Cfg["randfault"] = 1
	}
	pol := polFor(rc.Cfg["version"])
	rc.Parties = []PartyCfg{{KeyIdx: 0, Pol: pol, Peer: 1}, {KeyIdx: 1, Pol: pol, Peer: 0}}
}

// macOwner finds the key pair(s) of shadow s a MAC key belongs to.
// live: the pair is still inside s's acceptance window.
func macOwner(s *Shadow, k []byte) (found, live bool, desc string) {
	sp := s.Peer
	for si, c := range s.Sess {
		cur := si == len(s.Sess)-1 && sp.Encrypted
		var maxO, maxT uint32
		for id := range c.Ours {
			if id > maxO {
				maxO = id
			}
		}
		for id := range c.Theirs {
			if id > maxT {
				maxT = id
			}
		}
		for oi := uint32(1); oi <= maxO; oi++ {
			for ti := uint32(1); ti <= maxT; ti++ {
				ks, ok := c.PairKeys(oi, ti)
				if !ok {
					continue
				}
				if bytes.Equal(ks.RecvMAC, k) || bytes.Equal(ks.SendMAC, k) {
					found = true
					inWin := cur && (oi == sp.OurKeyID || oi == sp.OurKeyID-1) && (ti == sp.TheirKeyID || ti == sp.TheirKeyID-1)
					if inWin {
						live = true
					}
					which := "receiving"
					if bytes.Equal(ks.SendMAC, k) {
						which = "sending"
					}
					desc = fmt.Sprintf("%s MAC key of pair (our %d, their %d) of session %d; window now our %d..%d, their %d..%d", which, oi, ti, si, sp.OurKeyID-1, sp.OurKeyID, sp.TheirKeyID-1, sp.TheirKeyID)
					if !inWin {
						// a retired pair owns this key: the disclosure is accounted for. (With a peer
						// that announces the degenerate DH key 1 several of our generations share one
						// key with it; that is the peer's doing, not a premature disclosure.)
						return true, false, desc
					}
				}
			}
		}
	}
	return
}

func c09Run(rc *RunCtx) *Violation {
	cfgs := append([]PartyCfg{}, rc.Parties...)
	lying := rc.Cfg["lying"] == 1
	if lying {
		cfgs[1].Ref = true
		if cfgs[1].Pol&PolV3 == 0 {
			cfgs[1].Pol = PolV2
		} else {
			cfgs[1].Pol = PolV3
			cfgs[0].Pol = cfgs[0].Pol&^PolV2 | PolV3
		}
	}
	w := rc.NewWorld(cfgs)
	o := NewOmni(w)
	if lying {
		o.Off[1] = true
	}
	var viol *Violation
	disclosed := 0
	o.OnData = func(s *Shadow, mi *MsgInfo, r *CallResult) {
		if viol != nil || mi.Data == nil {
			return
		}
		s.snapshotKeys()
		for i := 0; i+20 <= len(mi.Data.OldMACKeys); i += 20 {
			k := mi.Data.OldMACKeys[i : i+20]
			disclosed++
			found, live, desc := macOwner(s, k)
			if os.Getenv("VERIF_VERBOSE") != "" {
				fmt.Printf("C09DBG %s #%d key %x found=%v live=%v %s\n", s.P.Name, r.Seq, k, found, live, desc)
				if !found {
					for si, c := range s.Sess {
						for oi := range c.Ours {
							for ti := range c.Theirs {
								ks, _ := c.PairKeys(oi, ti)
								fmt.Printf("C09DBG   sess %d pair (%d,%d) recv %x send %x\n", si, oi, ti, ks.RecvMAC, ks.SendMAC)
							}
						}
					}
				}
			}
			if !found {
				viol = rc.Viol("disclosed.unknown", fmt.Sprintf("%s #%d discloses %x, which is not a MAC key of any key pair it ever had", s.P.Name, r.Seq, k), nil)
				return
			}
			if live {
				viol = rc.Viol("disclosed.live", fmt.Sprintf("%s #%d discloses a MAC key it would still accept messages under: %s", s.P.Name, r.Seq, desc), map[string]string{"kind": "live"})
				return
			}
		}
	}
	// ---- forgery probe: the operational reading of "would no longer accept any message
	// authenticated with that key". Whoever reads a disclosed key K off the wire forges data
	// messages to the discloser, authenticated with K, for every key id pair around the ones in
	// use (fresh counter, arbitrary ciphertext). None may be accepted. A rejected forgery leaves
	// the discloser as it was (C06), so the run goes on. Not applied with the lying peer, whose
	// degenerate DH values make several generations share one MAC key.
	randfault := rc.Cfg["randfault"] == 1 && !lying
	if randfault {
		o.Off[0], o.Off[1] = true, true
	}
	type c09Probe struct {
		p *Party
		d *refotr.Data
	}
	var pending []c09Probe
	probes, forged := 0, 0
	// sessions a party left because the PEER ended them: the specification has the receiver of a
	// disconnect forget its keys on the spot, there is no later message of that session to
	// disclose anything in; not demanded (like the keys still live at the very end of a run)
	endedByPeer := [2]map[int]bool{{}, {}}
	w.Observers = append(w.Observers, func(p *Party, r *CallResult) {
		if r.Kind == "recv" && r.HasEvent("sec", "GoneInsecure") && p.Idx < 2 && p.Idx < len(o.Sh) && o.Sh[p.Idx] != nil && o.Sh[p.Idx].Peer != nil {
			// (kept for the record: for a while the keys of a session ended by the PEER were exempted
			// here as "the receiver forgets its keys at once". The statement makes no such exception,
			// the library's own End() and refresh paths carry such keys into the next session, and the
			// repair for the disconnect path was three lines - see DESIGN.md Appendix A.)
			_ = endedByPeer
		}
		if lying || p.Ref != nil {
			return
		}
		for _, out := range r.Out {
			if !dataTyped(out) {
				continue
			}
			if d, _, ok := parseDataLenient(out); ok && len(d.OldMACKeys) >= 20 {
				pending = append(pending, c09Probe{p, d})
			}
		}
	})
	runProbes := func() *Violation {
		for len(pending) > 0 {
			pr := pending[0]
			pending = pending[1:]
			p, m := pr.p, pr.d
			if !p.Conv.IsEncrypted() {
				continue
			}
			probes++
			for i := 0; i+20 <= len(m.OldMACKeys); i += 20 {
				k := m.OldMACKeys[i : i+20]
				for ds := -1; ds <= 1; ds++ {
					for dr := -1; dr <= 1; dr++ {
						sid, rid := int64(m.RecipientKeyID)+int64(ds), int64(m.SenderKeyID)+int64(dr)
						if sid < 1 || rid < 1 {
							continue
						}
						f := &refotr.Data{Header: m.Header, Flags: 0, SenderKeyID: uint32(sid), RecipientKeyID: uint32(rid), NextDH: big.NewInt(0x10001)}
						f.Header.SenderTag, f.Header.ReceiverTag = m.Header.ReceiverTag, m.Header.SenderTag
						f.Ctr = [8]byte{0xff, 0xff, 0xff, 0xf0, 0, 0, 0, byte(forged)}
						f.Enc = []byte("forged with a disclosed key")
						f.MAC = refotr.DataMAC(k, f.AuthBytes())
						forged++
						r := p.Receive(refotr.Armor(f.Raw()))
						if r.Err == "" && r.Panic == "" && !r.HasEvent("msg", "ReceivedMessageUnreadable") && !r.HasEvent("msg", "ReceivedMessageMalformed") {
							return rc.Viol("disclosed.live", fmt.Sprintf("%s accepted a data message forged with the MAC key %x that it had just disclosed itself (call #%d, key ids sender %d / recipient %d): the key was still live when it was published", p.Name, k, r.Seq, sid, rid),
								map[string]string{"kind": "forgery-accepted", "randfault": fmt.Sprint(randfault)})
						}
					}
				}
			}
		}
		return nil
	}
	if !w.Handshake(rc.Cfg["starter"]) {
		return rc.Viol("setup.handshake", "AKE did not complete", nil)
	}
	kinds := ""
	burst, burstWho := 0, 0
	gen := func() (Step, bool) {
		r := rc.Rng
		fly := [2]int{w.InFlight(0, 1), w.InFlight(1, 0)}
		if burst > 0 {
			burst--
			return Step{K: "send", A: burstWho, B: 1}, true
		}
		// sendA sendB delAB delBA tick burst refresh damage endrestart
		wt := [][]int{{10, 10, 14, 14, 1, 2, 1, 2}, {8, 8, 30, 30, 1, 0, 1, 2}, {20, 1, 12, 12, 1, 3, 0, 2}, {10, 10, 8, 8, 1, 8, 1, 2}, {8, 8, 14, 14, 2, 1, 5, 2}}[rc.Cfg["pattern"]%5]
		wt = append(append([]int{}, wt...), 0)
		if fly[0]+fly[1] == 0 && !lying && !randfault && len(rc.Steps) > 6 {
			wt[8] = 1 // a party ends the session; the same two conversations then start a new one
		}
		if fly[0]+fly[1] == 0 || rc.Cfg["damage"] == 0 {
			wt[7] = 0
		}
		if lying && r.Chance(1, 8) {
			return Step{K: "lie"}, true
		}
		if randfault && r.Chance(1, 10) {
			return Step{K: "randfault", A: r.Intn(2), B: r.Intn(3), C: 1 + r.Intn(4)}, true
		}
		if fly[0] == 0 {
			wt[2] = 0
		}
		if fly[1] == 0 {
			wt[3] = 0
		}
		if fly[0]+fly[1] > 0 {
			wt[6] = 0
		}
		if fly[0]+fly[1] > 30 {
			wt[0], wt[1], wt[5] = 0, 0, 0
		}
		switch r.Pick(wt) {
		case 0:
			return Step{K: "send", A: 0, B: 1 + r.Intn(3)}, true
		case 1:
			return Step{K: "send", A: 1, B: 1 + r.Intn(3)}, true
		case 2:
			return Step{K: "deliver", A: 0, B: 1}, true
		case 3:
			return Step{K: "deliver", A: 1, B: 0}, true
		case 4:
			return Step{K: "tick", A: r.Intn(len(tickDur))}, true
		case 5:
			burst, burstWho = 2+r.Intn(8), r.Intn(2)
			return Step{K: "send", A: burstWho, B: 1}, true
		case 6:
			return Step{K: "refresh", A: r.Intn(2)}, true
		case 8:
			return Step{K: "endrestart", A: r.Intn(2), B: r.Intn(2)}, true
		default:
			a := r.Intn(2)
			if fly[a] == 0 {
				a = 1 - a
			}
			return Step{K: "damage", A: a, B: r.Intn(160)}, true
		}
	}
	refreshes := 0
	for {
		s, ok := rc.NextStep(gen)
		if !ok {
			break
		}
		switch s.K {
		case "deliver":
			s.C = 0
			w.Exec(s)
		case "randfault":
			// the B-th coming multi-byte read of this party's randomness source fails
			if randfault {
				p := w.P[s.A%2]
				p.Rand.FailAt, p.Rand.Mode = p.Rand.reads+s.B%3, 1+s.C%4
				w.Fault("rand-read-fails")
			}
		case "lie":
			// the (authenticated) peer replaces its newest DH key by the degenerate pair (0, g^0 = 1);
			// it stays consistent with itself, so traffic goes on
			if lying && w.P[1].Ref.Encrypted {
				w.P[1].Ref.OurCur = refotr.DHPair{Priv: big.NewInt(0), Pub: big.NewInt(1)}
				w.Fault("peer-announces-dh-key-1")
			}
		case "damage":
			// line noise: a copy of the message at the head of a queue with one MAC bit flipped arrives first
			l := w.Links[s.A%2][1-s.A%2]
			if len(l) == 0 || !dataTyped(l[0].Bytes) {
				continue
			}
			m := MutateData(o, s.A%2, l[0].Bytes, 13, s.B)
			y := &Wire{ID: w.nextWire, From: s.A % 2, To: 1 - s.A%2, Bytes: m.Bytes, Note: "damaged-copy", Origin: l[0].ID, AuthChanged: true, Class: "mac"}
			w.nextWire++
			w.Arch = append(w.Arch, y)
			w.Fault("damaged-copy")
			w.Deliver(y)
		case "endrestart":
			if w.TotalInFlight() > 0 || lying || randfault {
				continue
			}
			p := w.P[s.A%2]
			q := w.P[1-s.A%2]
			if !p.Conv.IsEncrypted() {
				continue
			}
			r := p.End()
			w.Enqueue(p, r)
			w.Drain(2000)
			if s.B%2 == 1 {
				r = q.End() // the peer's user closes the finished conversation too
				w.Enqueue(q, r)
				w.Drain(2000)
			}
			w.Tick(tickDur[3])
			w.Put(p.Idx, p.Cfg.Peer, p.Query(), true, -1, -1, "query")
			w.Drain(2000)
			w.Fault("end-and-new-session")
			refreshes++
		case "refresh":
			if w.TotalInFlight() > 0 {
				continue
			}
			w.Tick(tickDur[3])
			p := w.P[s.A%2]
			w.Put(p.Idx, p.Cfg.Peer, p.Query(), true, -1, -1, "query")
			w.Drain(2000)
			refreshes++
		default:
			w.Exec(s)
		}
		kinds += s.K[:2] + fmt.Sprint(s.A%2)
		if viol != nil {
			return viol
		}
		if v := runProbes(); v != nil {
			return v
		}
		if randfault {
			continue
		}
		if v := divViolationSoft(rc, o); v != nil {
			return v
		}
	}
	if randfault {
		w.Drain(5000)
		if v := runProbes(); v != nil {
			return v
		}
		rc.Stats.Nontrivial = probes >= 2
		rc.Stats.Sig = fmt.Sprintf("v%d p%d rf %s", rc.Cfg["version"], rc.Cfg["pattern"], kinds)
		rc.ProbeN("forgery_probes", probes)
		rc.ProbeN("forged_messages", forged)
		rc.ProbeN("rand_faults_fired", w.P[0].Rand.Fired+w.P[1].Rand.Fired)
		rc.Probe("randfault_runs")
		return nil
	}
	// flush: exchange further messages so that used pairs retire, then one last send each
	w.Drain(5000)
	for i := 0; i < 3; i++ {
		for _, p := range w.P {
			if p.post().Enc {
				r := p.Send(w.GenText(p, 1, 0))
				w.Enqueue(p, r)
				w.Drain(2000)
			}
		}
	}
	for _, p := range w.P {
		if p.post().Enc {
			p.Send(w.GenText(p, 1, 0))
		}
	}
	if viol != nil {
		return viol
	}
	if v := runProbes(); v != nil {
		return v
	}
	if v := divViolationSoft(rc, o); v != nil {
		return v
	}
	retiredBoth := true
	for si, s := range o.Sh {
		if o.Off[si] || s.Peer == nil {
			continue
		}
		s.snapshotKeys()
		var shown [][]byte
		must := 0
		for _, c := range s.Sess {
			shown = append(shown, c.Shown...)
		}
		for si2, c := range s.Sess {
			si := si2
			for _, k := range c.Must {
				must++
				ok := false
				for _, x := range shown {
					ok = ok || bytes.Equal(x, k)
				}
				if !ok {
					what := "rotation"
					if si > 0 && len(c.Shown) == 0 || refreshes > 0 {
						what = "rotation-or-refresh"
					}
					_, _, desc := macOwner(s, k)
					return rc.Viol("undisclosed", fmt.Sprintf("%s never disclosed %x (%s), a receiving MAC key that verified a message and whose key pair it has retired (refresh AKEs in this run: %d)", s.P.Name, k, desc, refreshes),
						map[string]string{"after": what, "refreshes": fmt.Sprint(refreshes > 0)})
				}
			}
		}
		if must == 0 {
			retiredBoth = false
		}
	}
	rc.Stats.Nontrivial = disclosed >= 4 && retiredBoth
	rc.Stats.Sig = fmt.Sprintf("v%d p%d %s", rc.Cfg["version"], rc.Cfg["pattern"], kinds)
	rc.ProbeN("mac_keys_disclosed", disclosed)
	rc.ProbeN("refresh_akes", refreshes)
	rc.ProbeN("forgery_probes", probes)
	rc.ProbeN("forged_messages", forged)
	return nil
}

// divViolationSoft reports a shadow divergence as a harness-level inconclusive
// condition of this property: the key history can no longer be trusted.
func divViolationSoft(rc *RunCtx, o *Omni) *Violation {
	if len(o.Div) == 0 {
		return nil
	}
	v := divViolation(rc, o)
	v.Rule = "shadow.divergence"
	return v
}
