package sim

import (
	"os"
	"syscall"
	"time"
)

// temp-file helpers (ExportKeysToFile only writes to a named file); the file is removed at once.
func osCreateTemp() (string, error) {
	f, err := os.CreateTemp("", "verif-keys-*.asc")
	if err != nil {
		return "", err
	}
	name := f.Name()
	_ = f.Close()
	return name, nil
}
func osReadFile(n string) ([]byte, error) { return os.ReadFile(n) }
func osRemove(n string)                   { _ = os.Remove(n) }

// processCPU returns the CPU time (user + system) this process has used so far.
func processCPU() time.Duration {
	var ru syscall.Rusage
	if err := syscall.Getrusage(syscall.RUSAGE_SELF, &ru); err != nil {
		return 0
	}
	return time.Duration(ru.Utime.Nano() + ru.Stime.Nano())
}
