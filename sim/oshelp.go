package sim

import "os"

// temp-file helpers (ExportKeysToFile only writes to a named file); the file is removed at once.
func osCreateTemp() (string, error) {
	f, err := os.CreateTemp("", "verif-keys-*.asc")
	if err != nil {
		return "", err
	}
	name := f.Name()
	_ = f.Close()
	return name, nil
}
func osReadFile(n string) ([]byte, error) { return os.ReadFile(n) }
func osRemove(n string)                   { _ = os.Remove(n) }
