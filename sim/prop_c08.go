package sim

import (
	"bytes"
	"fmt"
	"strings"
)

// C08 – retired secrets and old plaintext are not retained.
// After every API call the object graph reachable from the conversation is
// scanned for every secret the party ever drew from its randomness source and
// every text it was given; a small model (written from the property's
// statement) says which of them may still be there.

func init() {
	Register(&PropDef{
		ID: "C08", Title: "forward secrecy: retired secrets and old plaintext are erased",
		Config: c08Config, Run: c08Run, MaxSteps: 90,
		Rule: "runs = PRNG-generated session histories (start by either side, traffic with rotations, refresh AKE, abandoned AKE via repeated query/commit, SMP, End, peer disconnect, message loss); after every API call the reachable graph of the acting conversation is scanned; " +
			"non-trivial = at least 3 DH generations retired and one session ended or refreshed; distinct = distinct step-kind sequences",
		Assume: []string{"secrets = values drawn from Conversation.Rand (40-byte DH exponents, 16-byte r, 20-byte DSA nonces, SMP exponents) and texts given to Send; derived keys are out of the statement's quantifier",
			"copies held in temporaries outside the conversation graph are invisible (only the aliased read buffers are observed for erasure)",
			"fragmentation is off in these runs so that emitted message kinds can be classified from the wire"},
	})
}

func c08Config(rc *RunCtx) {
	r := rc.Rng
	rc.Cfg["version"] = []int{2, 3, 3, 23}[r.Intn(4)]
	rc.Cfg["smp"] = r.Intn(2)
	rc.Cfg["lossy"] = r.Intn(3) / 2
	rc.Cfg["reqenc"] = r.Intn(4) / 3
	pol := polFor(rc.Cfg["version"])
	pa := pol
	if rc.Cfg["reqenc"] == 1 {
		pa |= PolReqEnc
	}
	rc.Parties = []PartyCfg{
		{KeyIdx: 0, Pol: pa, Peer: 1, ErrHandler: r.Bool()},
		{KeyIdx: 1, Pol: pol, Peer: 0, ErrHandler: r.Bool()},
	}
}

type c08Model struct {
	sess     []int          // indices (into Rand.Draws) of the DH private keys of the running session, oldest first
	ake      int            // index of the exponent of an AKE in progress, -1 if none
	akeR     int            // index of the 16-byte r of an AKE in progress we initiated, -1 if none
	gone     map[int]string // draw index -> reason why it must be erased and unreachable
	smp      []int          // SMP exponents drawn in the running session
	nonces   []int          // DSA nonces (must never be reachable)
	queued   map[int]bool   // index into SentText: queued awaiting encryption
	seenDraw int
	retired  int
	lastKept int // index of the most recent text that went out encrypted or was queued (the one message that may be retransmitted)
	ended    int
}

func hasPrefixAny(b []byte, ps ...string) bool {
	for _, p := range ps {
		if bytes.HasPrefix(b, []byte(p)) {
			return true
		}
	}
	return false
}

func c08Run(rc *RunCtx) *Violation {
	w := rc.NewWorld(rc.Parties)
	models := []*c08Model{{ake: -1, akeR: -1, lastKept: -1, gone: map[int]string{}, queued: map[int]bool{}}, {ake: -1, akeR: -1, lastKept: -1, gone: map[int]string{}, queued: map[int]bool{}}}
	var viol *Violation
	ask := [2]bool{}
	kinds := ""
	w.Observers = append(w.Observers, func(p *Party, r *CallResult) {
		if r.HasEvent("smp", "AskForSecret") || r.HasEvent("smp", "AskForAnswer") {
			ask[p.Idx] = true
		}
		if r.Kind == "smpanswer" {
			ask[p.Idx] = false
		}
		if viol != nil {
			return
		}
		m := models[p.Idx]
		emitsAKEStart := false
		for _, o := range r.Out {
			if hasPrefixAny(o, "?OTR:AAMC", "?OTR:AAIC", "?OTR:AAMK", "?OTR:AAIK") {
				emitsAKEStart = true
			}
		}
		completed := r.HasEvent("sec", "GoneSecure") || r.HasEvent("sec", "StillSecure")
		wasEnc := r.Post.Enc
		// classify the draws made during this call
		for ; m.seenDraw < len(p.Rand.Draws); m.seenDraw++ {
			d := p.Rand.Draws[m.seenDraw]
			i := m.seenDraw
			switch {
			case d.N == 40 && emitsAKEStart:
				if m.ake >= 0 {
					m.gone[m.ake] = "exponent of an abandoned key exchange"
				}
				if m.akeR >= 0 {
					m.gone[m.akeR] = "r of an abandoned key exchange"
					m.akeR = -1
				}
				m.ake = i
			case d.N == 16 && emitsAKEStart && (r.Kind == "recv" || r.Kind == "send"):
				m.akeR = i
			case d.N == 40:
				if completed {
					for _, o := range m.sess {
						m.gone[o] = "DH key of a superseded session"
						m.retired++
					}
					// SMP state may survive a refresh: the statement sets a deadline for it only at End/disconnect
					m.sess = nil
					if m.ake >= 0 {
						m.sess = append(m.sess, m.ake) // the AKE exponent lives on as DH key 1
					}
					m.ake = -1
					if m.akeR >= 0 {
						m.gone[m.akeR] = "r of a completed key exchange"
						m.akeR = -1
					}
					m.ended++
				}
				m.sess = append(m.sess, i)
				for len(m.sess) > 2 {
					m.gone[m.sess[0]] = "DH key older than the previous generation"
					m.sess = m.sess[1:]
					m.retired++
				}
			case d.N == 20:
				m.nonces = append(m.nonces, i)
			case d.N == 192 || (d.N == 16 && (r.Kind == "smpstart" || r.Kind == "smpanswer" || r.Kind == "recv")):
				m.smp = append(m.smp, i)
			}
		}
		if r.HasEvent("sec", "GoneInsecure") || r.Kind == "end" {
			for _, o := range m.sess {
				m.gone[o] = "DH key of an ended session"
			}
			if len(m.sess) > 0 {
				m.ended++
			}
			m.sess = nil
			for _, o := range m.smp {
				m.gone[o] = "SMP exponent of an ended session"
			}
			m.smp = nil
			if m.ake >= 0 {
				m.gone[m.ake] = "exponent of a key exchange abandoned by End/disconnect"
				m.ake = -1
			}
			if m.akeR >= 0 {
				m.gone[m.akeR] = "r of a key exchange abandoned by End/disconnect"
				m.akeR = -1
			}
		}
		// texts queued while waiting for encryption
		if r.Kind == "send" && r.Err == "" && r.HasEvent("msg", "EncryptionRequired") {
			m.queued[len(p.SentText)-1] = true
			m.lastKept = len(p.SentText) - 1
		}
		if r.Kind == "send" && r.Err == "" && r.Post.Enc {
			m.lastKept = len(p.SentText) - 1
		}
		if completed || wasEnc {
			// the session started: queued texts have been released
			if completed {
				m.queued = map[int]bool{}
			}
		}
		g := WalkGraph(p.Conv)
		for i, why := range m.gone {
			d := p.Rand.Draws[i]
			if where := g.Find(d.Val); len(where) > 0 {
				viol = rc.Viol("secret.retained", fmt.Sprintf("%s: after #%d %s the %s (draw %d, %d bytes, drawn in call #%d) is still reachable at %s", p.Name, r.Seq, r.Kind, why, i, d.N, d.Call, strings.Join(where, ",")),
					map[string]string{"what": why, "where": where[0]})
				return
			}
			if (d.N == 40 || strings.HasPrefix(why, "r of")) && !allZero(d.Alias) {
				viol = rc.Viol("secret.not-erased", fmt.Sprintf("%s: after #%d %s the %s (draw %d, drawn in call #%d) was dropped but the buffer it was read into still holds it", p.Name, r.Seq, r.Kind, why, i, d.Call),
					map[string]string{"what": why})
				return
			}
		}
		for _, i := range m.nonces {
			d := p.Rand.Draws[i]
			if where := g.Find(d.Val); len(where) > 0 {
				viol = rc.Viol("secret.retained", fmt.Sprintf("%s: DSA nonce (draw %d) reachable at %s", p.Name, i, strings.Join(where, ",")), map[string]string{"what": "DSA nonce", "where": where[0]})
				return
			}
		}
		last := len(p.SentText) - 1
		for i, t := range p.SentText {
			if i == last || i == m.lastKept || m.queued[i] || len(t) < 12 {
				continue
			}
			if where := g.Find(t); len(where) > 0 {
				viol = rc.Viol("text.retained", fmt.Sprintf("%s: after #%d %s the text of Send number %d (%s) is still reachable at %s although %d later text(s) were sent and it is not queued", p.Name, r.Seq, r.Kind, i, short(t), strings.Join(where, ","), m.lastKept-i),
					map[string]string{"where": where[0]})
				return
			}
		}
		rc.Probe("graph_scans")
	})
	gen := func() (Step, bool) {
		r := rc.Rng
		encA, encB := w.P[0].Conv.IsEncrypted(), w.P[1].Conv.IsEncrypted()
		fly := [2]int{w.InFlight(0, 1), w.InFlight(1, 0)}
		// weights: query sendA sendB delAB delBA tick end smpstart smpanswer drop
		wt := []int{2, 8, 8, 16, 16, 2, 1, 0, 0, 0}
		if !encA && !encB && fly[0]+fly[1] == 0 {
			wt[0] = 12
		}
		if fly[0] == 0 {
			wt[3] = 0
		}
		if fly[1] == 0 {
			wt[4] = 0
		}
		if rc.Cfg["smp"] == 1 && encA && encB {
			wt[7] = 2
			if ask[0] || ask[1] {
				wt[8] = 8
			}
		}
		if rc.Cfg["lossy"] == 1 && fly[0]+fly[1] > 0 {
			wt[9] = 2
		}
		switch r.Pick(wt) {
		case 0:
			return Step{K: "query", A: r.Intn(2)}, true
		case 1:
			return Step{K: "send", A: 0, B: 2 + r.Intn(2)}, true
		case 2:
			return Step{K: "send", A: 1, B: 2 + r.Intn(2)}, true
		case 3:
			return Step{K: "deliver", A: 0, B: 1}, true
		case 4:
			return Step{K: "deliver", A: 1, B: 0}, true
		case 5:
			return Step{K: "tick", A: []int{1, 3, 4}[r.Intn(3)]}, true
		case 6:
			return Step{K: "end", A: r.Intn(2)}, true
		case 7:
			return Step{K: "smpstart", A: r.Intn(2), B: r.Intn(2), C: 0}, true
		case 8:
			who := 0
			if ask[1] && (!ask[0] || r.Bool()) {
				who = 1
			}
			return Step{K: "smpanswer", A: who, C: r.Intn(2)}, true
		default:
			a := r.Intn(2)
			if fly[a] == 0 {
				a = 1 - a
			}
			return Step{K: "drop", A: a, B: 1 - a}, true
		}
	}
	for {
		s, ok := rc.NextStep(gen)
		if !ok {
			break
		}
		if s.K == "deliver" || s.K == "drop" {
			s.C = 0
		}
		if s.K == "setfrag" || s.K == "crash" {
			continue
		}
		w.Exec(s)
		kinds += s.K[:2] + fmt.Sprint(s.A%2)
		if viol != nil {
			return viol
		}
	}
	rc.Stats.Nontrivial = models[0].retired+models[1].retired >= 3 && models[0].ended+models[1].ended >= 2
	rc.Stats.Sig = fmt.Sprintf("v%d %s", rc.Cfg["version"], kinds)
	rc.ProbeN("dh_generations_retired", models[0].retired+models[1].retired)
	rc.ProbeN("sessions_started_or_ended", models[0].ended+models[1].ended)
	return nil
}
