package sim

import (
	"bytes"
	"fmt"
	"reflect"
	"sort"
	"unsafe"
)

// Object-graph walker: everything reachable from a *Conversation, read from
// outside the package with reflect+unsafe. It follows pointers, interfaces,
// slices (to capacity, because stale elements beyond len are still retained
// memory), arrays, strings and maps, and cuts out harness-owned objects
// (the SimRand and the event handlers, which point back into the simulator).
// It uses no otr3 field name for any decision; field paths are only reported.

type Region struct {
	Addr  uintptr
	Bytes []byte // alias of the live memory
	Path  string
}

type Graph struct {
	Regions []Region // raw byte-like memory (byte slices, strings, word slices of big.Int, ...)
	Total   int      // bytes of all distinct heap objects reached
	Objects int
	ByPath  map[string]int // bytes per (truncated) field path
}

type visitKey struct {
	addr uintptr
	typ  reflect.Type
}

type walker struct {
	seen    map[visitKey]bool
	regSeen map[[2]uintptr]bool
	g       *Graph
}

const harnessPkg = "verifsim"

func WalkGraph(root interface{}) *Graph {
	w := &walker{seen: map[visitKey]bool{}, regSeen: map[[2]uintptr]bool{}, g: &Graph{ByPath: map[string]int{}}}
	v := reflect.ValueOf(root)
	w.walk(v, "c", 0)
	sort.Slice(w.g.Regions, func(i, j int) bool {
		if w.g.Regions[i].Addr != w.g.Regions[j].Addr {
			return w.g.Regions[i].Addr < w.g.Regions[j].Addr
		}
		return len(w.g.Regions[i].Bytes) < len(w.g.Regions[j].Bytes)
	})
	return w.g
}

func accessible(v reflect.Value) reflect.Value {
	if v.CanInterface() || !v.CanAddr() {
		return v
	}
	return reflect.NewAt(v.Type(), unsafe.Pointer(v.UnsafeAddr())).Elem()
}

func isScalar(k reflect.Kind) bool {
	switch k {
	case reflect.Bool, reflect.Int, reflect.Int8, reflect.Int16, reflect.Int32, reflect.Int64,
		reflect.Uint, reflect.Uint8, reflect.Uint16, reflect.Uint32, reflect.Uint64, reflect.Uintptr,
		reflect.Float32, reflect.Float64, reflect.Complex64, reflect.Complex128:
		return true
	}
	return false
}

func (w *walker) region(addr uintptr, n int, path string) {
	if n <= 0 || addr == 0 {
		return
	}
	k := [2]uintptr{addr, uintptr(n)}
	if w.regSeen[k] {
		return
	}
	w.regSeen[k] = true
	w.g.Regions = append(w.g.Regions, Region{Addr: addr, Bytes: unsafe.Slice((*byte)(unsafe.Pointer(addr)), n), Path: path})
	w.g.Total += n
	w.g.Objects++
	w.g.ByPath[pathKey(path)] += n
}

func (w *walker) walk(v reflect.Value, path string, depth int) {
	if !v.IsValid() || depth > 200 {
		return
	}
	t := v.Type()
	if t.PkgPath() == harnessPkg {
		return
	}
	switch v.Kind() {
	case reflect.Ptr:
		if v.IsNil() {
			return
		}
		if t.Elem().PkgPath() == harnessPkg {
			return
		}
		k := visitKey{v.Pointer(), t}
		if w.seen[k] {
			return
		}
		w.seen[k] = true
		w.g.Total += int(t.Elem().Size())
		w.g.Objects++
		w.g.ByPath[pathKey(path)] += int(t.Elem().Size())
		w.walk(v.Elem(), path, depth+1)
	case reflect.Interface:
		if v.IsNil() {
			return
		}
		e := v.Elem()
		if e.Type().PkgPath() == harnessPkg {
			return
		}
		if e.Kind() == reflect.Ptr {
			w.walk(e, path, depth+1)
		} else {
			// non-pointer dynamic value: make an addressable copy view is not possible; walk the copy
			w.walk(e, path, depth+1)
		}
	case reflect.Struct:
		for i := 0; i < v.NumField(); i++ {
			f := v.Field(i)
			if v.CanAddr() {
				f = accessible(f)
			}
			w.walk(f, path+"."+t.Field(i).Name, depth+1)
		}
	case reflect.Slice:
		if v.IsNil() || v.Cap() == 0 {
			return
		}
		es := int(t.Elem().Size())
		full := v
		if v.Cap() > v.Len() {
			full = v.Slice(0, v.Cap())
		}
		addr := full.Pointer()
		if isScalar(t.Elem().Kind()) {
			w.region(addr, full.Len()*es, path)
			return
		}
		k := visitKey{addr, t}
		if w.seen[k] && false {
			return
		}
		kk := [2]uintptr{addr, uintptr(full.Len() * es)}
		if !w.regSeen[kk] {
			w.regSeen[kk] = true
			w.g.Total += full.Len() * es
			w.g.Objects++
			w.g.ByPath[pathKey(path)] += full.Len() * es
		} else {
			return
		}
		for i := 0; i < full.Len(); i++ {
			w.walk(full.Index(i), path+"[*]", depth+1)
		}
	case reflect.Array:
		if isScalar(t.Elem().Kind()) {
			if v.CanAddr() {
				w.region(v.UnsafeAddr(), int(t.Size()), path)
			}
			return
		}
		for i := 0; i < v.Len(); i++ {
			w.walk(v.Index(i), path+"[*]", depth+1)
		}
	case reflect.String:
		s := v.String()
		if len(s) > 0 {
			w.region(uintptr(unsafe.Pointer(unsafe.StringData(s))), len(s), path)
		}
	case reflect.Map:
		if v.IsNil() {
			return
		}
		it := v.MapRange()
		for it.Next() {
			w.walk(it.Key(), path+"{k}", depth+1)
			w.walk(it.Value(), path+"{v}", depth+1)
		}
	}
}

func reverse(b []byte) []byte {
	r := make([]byte, len(b))
	for i := range b {
		r[len(b)-1-i] = b[i]
	}
	return r
}

// Find reports the paths of regions that contain pat, either as is or in
// reversed byte order (big.Int keeps little-endian words, so a big-endian
// secret appears reversed in memory).
func (g *Graph) Find(pat []byte) []string {
	if len(pat) < 8 {
		return nil
	}
	rev := reverse(pat)
	var out []string
	for _, r := range g.Regions {
		if len(r.Bytes) < len(pat) {
			continue
		}
		if bytes.Contains(r.Bytes, pat) {
			out = append(out, r.Path)
		} else if bytes.Contains(r.Bytes, rev) {
			out = append(out, r.Path+"(rev)")
		}
	}
	return out
}

func (g *Graph) String() string { return fmt.Sprintf("%d bytes in %d objects", g.Total, g.Objects) }

func allZero(b []byte) bool {
	for _, x := range b {
		if x != 0 {
			return false
		}
	}
	return true
}

// pathKey truncates a field path to its first three components.
func pathKey(p string) string {
	n := 0
	for i := 0; i < len(p); i++ {
		if p[i] == '.' {
			n++
			if n == 4 {
				return p[:i]
			}
		}
	}
	return p
}
