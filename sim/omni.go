package sim

import (
	"bytes"
	"crypto/dsa"
	"encoding/binary"
	"encoding/hex"
	"errors"
	"fmt"
	"math/big"

	"verifsim/refotr"
)

// Omni is the omniscient passive observer: for every real party it runs a
// shadow refotr.Peer (the independent implementation of the specification)
// that is given the same inputs and - because the harness owns all randomness -
// the same random draws. The shadow therefore predicts, byte for byte, every
// AKE message the real party must emit, knows every key of every session
// without reading otr3 internals, decrypts every data message, and gives the
// specification's verdict (accept / reject and why) on every message delivered
// to the real party. A disagreement is a "divergence".

type MsgInfo struct {
	From   int
	Call   int
	Raw    []byte // armoured, reassembled
	Frags  [][]byte
	Parsed interface{}
	Data   *refotr.Data
	Keys   refotr.DataKeys
	Text   []byte
	TLVs   []refotr.TLV
	Ctr    uint64
	Sess   int
	OK     bool // consistent with the shadow's expectation
}

type SessRec struct {
	Ours     map[uint32]refotr.DHPair
	Theirs   map[uint32]*big.Int
	SSID     [8]byte
	Start    int
	Init     bool
	Must     [][]byte // receiving MAC keys that must eventually be disclosed
	Shown    [][]byte // MAC keys disclosed so far
	Used     []refotr.UsedKey
	Version  uint16
	keyCache map[[2]uint32]refotr.DataKeys
}

type Shadow struct {
	P     *Party
	Peer  *refotr.Peer
	rd    *shadowReader
	Sess  []*SessRec
	inbox int
}

type Omni struct {
	W       *World
	Sh      []*Shadow
	Div     []string
	Msgs    []*MsgInfo
	Verdict map[int]*Verdict                            // by call seq: the specification's verdict on the message delivered in that call
	Strict  bool                                        // record codec strictness problems as divergences
	Off     map[int]bool                                // parties without shadow
	OnData  func(s *Shadow, mi *MsgInfo, r *CallResult) // called for every data message a real party emits, with the shadow state of that moment
}

// Verdict is the reference implementation's judgement of a delivered message.
type Verdict struct {
	Accepted bool
	Check    string // first failed check when rejected
	Ignored  bool
	Delivery *refotr.Delivery
	IsData   bool
}

type shadowReader struct {
	p     *Party
	rnd   *SimRand // the party's randomness source this shadow follows (replaced on crash/restart)
	call  int
	used  map[int]bool
	start int
}

func (s *shadowReader) Read(b []byte) (int, error) {
	if len(b) == 0 {
		return 0, nil
	}
	if len(b) == 1 {
		b[0] = 0x55
		return 1, nil
	}
	ds := s.rnd.Draws
	for s.start < len(ds) && ds[s.start].Call < s.call {
		s.start++
	}
	for i := s.start; i < len(ds); i++ {
		if ds[i].Call == s.call && ds[i].N == len(b) && !s.used[i] {
			s.used[i] = true
			copy(b, ds[i].Val)
			return len(b), nil
		}
	}
	return 0, errors.New("shadow: the real party made no matching random draw in this call")
}

func NewOmni(w *World) *Omni {
	o := &Omni{W: w, Verdict: map[int]*Verdict{}, Off: map[int]bool{}, Strict: true}
	for _, p := range w.P {
		o.Sh = append(o.Sh, &Shadow{P: p, rd: &shadowReader{p: p, rnd: p.Rand, used: map[int]bool{}}})
	}
	w.Observers = append(w.Observers, o.observe)
	return o
}

// Reset forgets the shadow of party i (after a crash/restart).
func (o *Omni) Reset(i int) {
	p := o.W.P[i]
	o.Sh[i] = &Shadow{P: p, rd: &shadowReader{p: p, rnd: p.Rand, used: map[int]bool{}}}
}

func (o *Omni) div(format string, a ...interface{}) {
	if len(o.Div) < 20 {
		o.Div = append(o.Div, fmt.Sprintf(format, a...))
	}
}

func dsaPriv(p *Party) *dsa.PrivateKey { return &p.Key.PrivateKey }

func isAKE(m interface{}) bool {
	switch m.(type) {
	case *refotr.DHCommit, *refotr.DHKey, *refotr.RevealSig, *refotr.Signature:
		return true
	}
	return false
}

// Reassemble groups the outputs of one call into complete messages.
// Fragments of one message are emitted consecutively.
type outMsg struct {
	raw   []byte
	frags [][]byte
	otr   bool
}

func reassembleOutputs(out [][]byte) ([]outMsg, error) {
	var res []outMsg
	var ra refotr.Reassembler
	var cur [][]byte
	for _, o := range out {
		if refotr.IsFragment(o) {
			f, err := refotr.ParseFragment(o)
			if err != nil {
				return nil, fmt.Errorf("emitted fragment does not parse: %v (%s)", err, short(o))
			}
			cur = append(cur, o)
			if whole := ra.Add(f.K, f.N, f.Piece); whole != nil {
				res = append(res, outMsg{raw: whole, frags: cur, otr: true})
				cur = nil
			}
			continue
		}
		if len(cur) > 0 {
			return nil, fmt.Errorf("incomplete fragment sequence followed by %s", short(o))
		}
		res = append(res, outMsg{raw: o, otr: refotr.IsArmored(o)})
	}
	if len(cur) > 0 {
		return nil, fmt.Errorf("incomplete fragment sequence at end of output (%d pieces)", len(cur))
	}
	return res, nil
}

func (s *Shadow) cur() *SessRec {
	if len(s.Sess) == 0 {
		return nil
	}
	return s.Sess[len(s.Sess)-1]
}

func (s *Shadow) snapshotKeys() {
	c := s.cur()
	sp := s.Peer
	if c == nil || sp == nil || (!sp.Encrypted && !sp.Finished) {
		return
	}
	if sp.OurKeyID > 0 {
		if sp.OurCur.Priv != nil {
			c.Ours[sp.OurKeyID] = sp.OurCur
		}
		if sp.OurPrev.Priv != nil {
			c.Ours[sp.OurKeyID-1] = sp.OurPrev
		}
	}
	if sp.TheirKeyID > 0 {
		if sp.TheirCur != nil {
			c.Theirs[sp.TheirKeyID] = sp.TheirCur
		}
		if sp.TheirPrev != nil {
			c.Theirs[sp.TheirKeyID-1] = sp.TheirPrev
		}
	}
	// collect keys that the specification says must be disclosed
	for len(sp.PendingOldMAC) >= 20 {
		c.Must = append(c.Must, append([]byte{}, sp.PendingOldMAC[:20]...))
		sp.PendingOldMAC = sp.PendingOldMAC[20:]
	}
	c.Used = append(c.Used[:0], sp.UsedRecvMAC...)
}

func (o *Omni) observe(p *Party, r *CallResult) {
	if o.Off[p.Idx] {
		return
	}
	s := o.Sh[p.Idx]
	if s.P != p || s.rd.rnd != p.Rand {
		// party was rebuilt (crash/restart)
		o.Reset(p.Idx)
		s = o.Sh[p.Idx]
	}
	s.rd.call = r.Seq
	if r.Panic != "" {
		return
	}
	outs, err := reassembleOutputs(r.Out)
	if err != nil {
		o.div("%s #%d %s: %v", p.Name, r.Seq, r.Kind, err)
		return
	}
	// strict codec check of everything OTR-encoded that was emitted
	type pm struct {
		m   interface{}
		raw outMsg
	}
	var parsed []pm
	for _, om := range outs {
		if !om.otr {
			continue
		}
		m, err := refotr.ParseArmored(om.raw)
		if err != nil {
			if o.Strict {
				o.div("%s #%d %s: emitted message fails the strict parser: %v (%s)", p.Name, r.Seq, r.Kind, err, short(om.raw))
			}
			continue
		}
		if o.Strict && !bytes.Equal(refotr.Armor(refotr.RawOf(m)), om.raw) {
			o.div("%s #%d %s: emitted message does not re-serialise to identical bytes (%s)", p.Name, r.Seq, r.Kind, short(om.raw))
		}
		parsed = append(parsed, pm{m, om})
	}
	// create the shadow when the party's version becomes known
	if s.Peer == nil {
		var v uint16
		for _, x := range parsed {
			v = refotr.HeaderOf(x.m).Version
			break
		}
		if v == 0 && r.Kind == "recv" {
			// the party commits to the version of the first OTR message or fragment it
			// is given, if its policy allows that version
			var iv uint16
			switch {
			case bytes.HasPrefix(r.In, []byte("?OTR|")):
				iv = 3
			case bytes.HasPrefix(r.In, []byte("?OTR,")):
				iv = 2
			case refotr.IsArmored(r.In):
				if raw, err := refotr.Dearmor(r.In); err == nil && len(raw) >= 2 {
					iv = uint16(raw[0])<<8 | uint16(raw[1])
				}
			}
			if (iv == 2 && p.Cfg.Pol&PolV2 != 0) || (iv == 3 && p.Cfg.Pol&PolV3 != 0) {
				v = iv
			}
		}
		if v == 0 {
			return
		}
		s.Peer = refotr.NewPeer(v, dsaPriv(p), s.rd, p.Conv.GetOurInstanceTag())
		s.Peer.ForgetFragmentsOnWholeMessage = true // the shadow follows otr3 where the specification is silent
	}
	sp := s.Peer
	// 1. feed the shadow
	var expect [][]byte
	inIsOTR := r.Kind == "recv" && (refotr.IsArmored(r.In) || refotr.IsFragment(r.In))
	if inIsOTR {
		before := len(sp.Inbox)
		wasEnc := sp.Encrypted
		var out [][]byte
		var err error
		if _, perr := refotr.ParseArmored(r.In); perr != nil && refotr.IsArmored(r.In) {
			// not strictly well-formed: if only the unauthenticated remainder is unusual
			// (bytes after the old-MAC-keys field, line breaks in the armour) a tolerant
			// receiver may accept it; the shadow follows the tolerant reading
			if d, _, ok := parseDataLenient(r.In); ok {
				out, err = sp.ReceiveParsed(d)
			} else if m, ok := parseAKELenient(r.In); ok {
				out, err = sp.ReceiveParsed(m)
			} else {
				out, err = sp.Receive(r.In)
			}
		} else {
			out, err = sp.Receive(r.In)
		}
		v := &Verdict{Accepted: err == nil}
		var ce *refotr.CheckError
		if errors.As(err, &ce) {
			v.Check, v.Ignored = ce.Check, ce.Ignored
		} else if err != nil {
			v.Check = "shadow:" + err.Error()
		}
		if len(sp.Inbox) > before {
			d := sp.Inbox[len(sp.Inbox)-1]
			v.Delivery = &d
			v.IsData = d.Encrypted
			for _, t := range d.TLVs {
				if t.Type == refotr.TLVDisconnected {
					// otr3 abandons a key exchange in progress when the peer ends the session; the
					// specification leaves the authentication state open at this point, so the
					// shadow follows the implementation's (compatible) choice
					sp.AuthState = refotr.AuthNone
				}
			}
		}
		if err != nil && (v.Check == "mac" || v.Check == "ctr-replay" || v.Check == "ctr-zero" || v.Check == "recipient-keyid" || v.Check == "sender-keyid" || v.Check == "not-encrypted" || v.Check == "tlv" || v.Check == "nextdh-range") {
			v.IsData = true
		}
		_ = wasEnc
		o.Verdict[r.Seq] = v
		expect = out
		// delivery comparison for data messages
		if v.Delivery != nil && v.Delivery.Encrypted {
			want := v.Delivery.Text
			if len(want) == 0 {
				want = nil
			}
			if !bytes.Equal(want, r.Plain) || (want == nil) != (r.Plain == nil) {
				o.div("%s #%d: specification delivers %s, real party returned %s", p.Name, r.Seq, short(want), short(r.Plain))
			}
			for _, e := range r.Events {
				if e.Kind == "key" && !bytes.Equal(e.Data, v.Delivery.ExtraKey) {
					o.div("%s #%d: extra symmetric key handed to the application differs from the specification's", p.Name, r.Seq)
				}
			}
		} else if v.IsData && !v.Accepted {
			if r.Plain != nil {
				o.div("%s #%d: specification rejects the data message (%s), real party returned plaintext %s", p.Name, r.Seq, v.Check, short(r.Plain))
			}
		}
	} else {
		for _, x := range parsed {
			if _, ok := x.m.(*refotr.DHCommit); ok {
				c, err := sp.StartAKE()
				if err != nil {
					o.div("%s #%d %s: real party emitted a DH-Commit but drew no x/r: %v", p.Name, r.Seq, r.Kind, err)
					return
				}
				expect = [][]byte{c}
			}
		}
	}
	bookkeep := func() {
		if sp.Encrypted && (s.cur() == nil || s.cur().SSID != sp.SSID) {
			s.Sess = append(s.Sess, &SessRec{Ours: map[uint32]refotr.DHPair{}, Theirs: map[uint32]*big.Int{}, SSID: sp.SSID, Start: r.Seq, Init: sp.Initiator, Version: sp.Version})
			// carry over what must still be disclosed from the previous session
			if len(s.Sess) >= 2 {
				prev := s.Sess[len(s.Sess)-2]
				_ = prev
			}
			if r.Post.SSID != sp.SSID {
				o.div("%s #%d: SSID %x differs from the specification's %x", p.Name, r.Seq, r.Post.SSID, sp.SSID)
			}
			if sp.TheirPub != nil && r.Post.FP != hex.EncodeToString(refotr.Fingerprint(sp.TheirPub)) {
				o.div("%s #%d: reported peer fingerprint differs from the key that signed the exchange", p.Name, r.Seq)
			}
			wantHL := 1
			if sp.Initiator {
				wantHL = 0
			}
			if r.Post.HL != wantHL {
				o.div("%s #%d: SSID highlight half %d, specification says %d", p.Name, r.Seq, r.Post.HL, wantHL)
			}
		}

	}
	bookkeep()
	// 2. compare AKE output byte for byte; absorb data output
	ei := 0
	for _, x := range parsed {
		if isAKE(x.m) {
			if ei >= len(expect) {
				o.div("%s #%d %s: real party emitted %T that the specification does not send here (shadow state %d)", p.Name, r.Seq, r.Kind, x.m, sp.AuthState)
				continue
			}
			if !bytes.Equal(expect[ei], x.raw.raw) {
				o.div("%s #%d %s: emitted %T differs from the specification's bytes for the same secrets: %s", p.Name, r.Seq, r.Kind, x.m, diffMsg(expect[ei], x.raw.raw))
			}
			ei++
			o.Msgs = append(o.Msgs, &MsgInfo{From: p.Idx, Call: r.Seq, Raw: x.raw.raw, Frags: x.raw.frags, Parsed: x.m, OK: true, Sess: len(s.Sess) - 1})
			continue
		}
		if d, ok := x.m.(*refotr.Data); ok {
			mi := o.absorb(s, d, r)
			mi.Raw, mi.Frags = x.raw.raw, x.raw.frags
			o.Msgs = append(o.Msgs, mi)
		}
	}
	for ; ei < len(expect); ei++ {
		o.div("%s #%d %s: the specification sends a reply here that the real party did not send (%s)", p.Name, r.Seq, r.Kind, short(expect[ei]))
	}
	bookkeep()
	if r.Kind == "end" {
		sp.Encrypted, sp.Finished = false, false
		sp.AuthState = refotr.AuthNone
	}
	s.snapshotKeys()
	if r.Post.Enc != sp.Encrypted {
		o.div("%s #%d %s: IsEncrypted=%v but the specification's state is encrypted=%v", p.Name, r.Seq, r.Kind, r.Post.Enc, sp.Encrypted)
	}
}

func diffMsg(want, got []byte) string {
	n := 0
	for n < len(want) && n < len(got) && want[n] == got[n] {
		n++
	}
	return fmt.Sprintf("lengths %d/%d, first difference at armoured offset %d", len(want), len(got), n)
}

// absorb checks a data message emitted by the real party against the shadow's
// state (the specification's expectation), decrypts it, and advances the
// shadow's sending state.
func (o *Omni) absorb(s *Shadow, d *refotr.Data, r *CallResult) *MsgInfo {
	p, sp := s.P, s.Peer
	mi := &MsgInfo{From: p.Idx, Call: r.Seq, Parsed: d, Data: d, Sess: len(s.Sess) - 1}
	if !sp.Encrypted {
		o.div("%s #%d %s: data message emitted while the specification's state is not encrypted", p.Name, r.Seq, r.Kind)
		return mi
	}
	bad := func(format string, a ...interface{}) {
		o.div("%s #%d %s data message: %s", p.Name, r.Seq, r.Kind, fmt.Sprintf(format, a...))
	}
	if sp.Version >= 3 && (d.SenderTag != sp.OurTag || d.ReceiverTag != sp.TheirTag) {
		bad("instance tags %08x/%08x, expected %08x/%08x", d.SenderTag, d.ReceiverTag, sp.OurTag, sp.TheirTag)
	}
	if d.SenderKeyID != sp.OurKeyID-1 || d.RecipientKeyID != sp.TheirKeyID {
		bad("key ids (%d,%d), specification says (%d,%d)", d.SenderKeyID, d.RecipientKeyID, sp.OurKeyID-1, sp.TheirKeyID)
		return mi
	}
	if sp.OurCur.Pub == nil || d.NextDH.Cmp(sp.OurCur.Pub) != 0 {
		bad("advertised next DH key is not the public key with serial %d", sp.OurKeyID)
	}
	keys := refotr.DeriveDataKeys(sp.OurPrev.Priv, sp.OurPrev.Pub, sp.TheirCur)
	mi.Keys = keys
	if !bytes.Equal(d.MAC, refotr.DataMAC(keys.SendMAC, d.AuthBytes())) {
		bad("MAC is not HMAC-SHA1 under the sending MAC key of pair (%d,%d)", d.SenderKeyID, d.RecipientKeyID)
		return mi
	}
	ctr := binary.BigEndian.Uint64(d.Ctr[:])
	pair := [2]uint32{d.SenderKeyID, d.RecipientKeyID}
	if ctr == 0 || ctr <= sp.SendCtr[pair] {
		bad("counter %d not above the previous %d for this key pair", ctr, sp.SendCtr[pair])
	}
	sp.SendCtr[pair] = ctr
	mi.Ctr = ctr
	plain := refotr.AESCTR(keys.SendAES, d.Ctr, d.Enc)
	text, tlvs, err := refotr.ParsePlain(plain)
	if err != nil {
		bad("plaintext/TLV layout: %v", err)
		// the human-readable part is still what a receiver shows: everything up to the first NUL
		if i := bytes.IndexByte(plain, 0); i >= 0 {
			mi.Text = append([]byte{}, plain[:i]...)
		} else {
			mi.Text = append([]byte{}, plain...)
		}
		return mi
	}
	mi.Text, mi.TLVs, mi.OK = text, tlvs, true
	if len(d.Trailing) != 0 {
		bad("%d trailing bytes after the old MAC keys", len(d.Trailing))
	}
	if r.Kind == "extrakey" && !bytes.Equal(r.Key, keys.Extra) {
		bad("UseExtraSymmetricKey returned a key that is not SHA-256(0xff || secbytes) of the pair used")
	}
	if c := s.cur(); c != nil {
		for i := 0; i+20 <= len(d.OldMACKeys); i += 20 {
			c.Shown = append(c.Shown, append([]byte{}, d.OldMACKeys[i:i+20]...))
		}
	}
	if o.OnData != nil {
		o.OnData(s, mi, r)
	}
	for _, t := range tlvs {
		if t.Type == refotr.TLVDisconnected {
			sp.Encrypted = false
		}
	}
	return mi
}

// Find returns the decoded record of an emitted message by its armoured bytes.
func (o *Omni) Find(raw []byte) *MsgInfo {
	for i := len(o.Msgs) - 1; i >= 0; i-- {
		if bytes.Equal(o.Msgs[i].Raw, raw) {
			return o.Msgs[i]
		}
	}
	return nil
}

// PairKeys returns (cached) the data keys of the pair (our key oi, their key ti) of a recorded session.
func (c *SessRec) PairKeys(oi, ti uint32) (refotr.DataKeys, bool) {
	our, ok1 := c.Ours[oi]
	th, ok2 := c.Theirs[ti]
	if !ok1 || !ok2 {
		return refotr.DataKeys{}, false
	}
	if c.keyCache == nil {
		c.keyCache = map[[2]uint32]refotr.DataKeys{}
	}
	k, ok := c.keyCache[[2]uint32{oi, ti}]
	if !ok {
		k = refotr.DeriveDataKeys(our.Priv, our.Pub, th)
		c.keyCache[[2]uint32{oi, ti}] = k
	}
	return k, true
}
