package sim

import (
	"bytes"
	"encoding/hex"
	"fmt"
)

// C07 – the key exchange always completes on a reliable network, however it
// is started. Bounded liveness: once the triggers are issued and the two FIFO
// links are drained (any interleaving, ticks in between) both sides are
// encrypted in one common session and probes flow both ways.

func init() {
	Register(&PropDef{
		ID: "C07", Title: "AKE completes on a reliable network",
		Config: c07Config, Run: c07Run, MaxSteps: 400,
		Rule: "runs = start pattern (A, B or both; trigger kind query / whitespace tag / error restart / Send under require-encryption; fresh, refresh of a running session, or after an earlier session was ended by one or both users) x policy pair sharing a version x PRNG-chosen interleaving of the two FIFO queues with ticks; " +
			"non-trivial = at least 4 AKE deliveries happened; distinct = distinct (policies, triggers, delivery order) signatures",
		Assume: []string{"links are reliable FIFO", "a trigger that reaches a party within 60 s of its last AKE state change is ignored by design and carries no liveness obligation (triggers are issued outside that window)", "one start per side (plus several Sends under require-encryption before the first delivery): a further start by the same side while its exchange is under way is not explored (seeded change C07-5 is missed for that reason, DESIGN.md Appendix C wave 4)"},
	})
}

func c07Config(rc *RunCtx) {
	r := rc.Rng
	vs := [][2]int{{PolV3, PolV3}, {PolV2, PolV2}, {PolV2 | PolV3, PolV2 | PolV3}, {PolV2 | PolV3, PolV2}, {PolV3, PolV2 | PolV3}, {PolV2, PolV2 | PolV3}, {PolV2 | PolV3, PolV3}}
	v := vs[r.Intn(len(vs))]
	who := r.Intn(3) // 0 A, 1 B, 2 both
	// prior history: 0 none, 1 a session is running (refresh), 2 a session existed and was ended
	rc.Cfg["refresh"] = []int{0, 0, 0, 0, 1, 1, 2, 2}[r.Intn(8)]
	rc.Cfg["ender"], rc.Cfg["bothend"] = r.Intn(2), r.Intn(2)
	if rc.Cfg["refresh"] == 2 && who == 2 {
		who = r.Intn(2) // one starter (crossing starts are the known collision finding, whatever came before)
	}
	rc.Cfg["who"] = who
	pol := [2]int{v[0], v[1]}
	for s := 0; s < 2; s++ {
		if who != 2 && who != s {
			rc.Cfg[fmt.Sprintf("trig%d", s)] = -1
			continue
		}
		k := r.Intn(4)
		if rc.Cfg["refresh"] == 1 {
			k = []int{0, 2}[r.Intn(2)] // while encrypted a Send is encrypted traffic, not a start
		}
		if rc.Cfg["refresh"] == 2 && s != rc.Cfg["ender"] && rc.Cfg["bothend"] == 0 {
			k = 0 // this side still shows the finished session: Send refuses there, a query is the way out
		}
		rc.Cfg[fmt.Sprintf("trig%d", s)] = k
		switch k {
		case 1:
			pol[s] |= PolWSTag
			pol[1-s] |= PolWSStart
		case 2:
			pol[s] |= PolErrStart
		case 3:
			pol[s] |= PolReqEnc
		}
	}
	// irrelevant extra policy bits must not matter
	for s := 0; s < 2; s++ {
		if r.Chance(1, 4) {
			pol[s] |= []int{PolWSTag, PolWSStart, PolErrStart}[r.Intn(3)]
		}
	}
	rc.Cfg["tickiness"] = r.Intn(3)
	rc.Parties = []PartyCfg{
		{KeyIdx: 0, Pol: pol[0], Peer: 1, ErrHandler: r.Bool(), Frag: []int{0, 0, 200, 100}[r.Intn(4)]},
		{KeyIdx: 1, Pol: pol[1], Peer: 0, ErrHandler: r.Bool(), Frag: []int{0, 0, 200, 100}[r.Intn(4)]},
	}
}

func keyFP(i int) string { return hex.EncodeToString(TestKey(i).PublicKey().Fingerprint()) }

func c07Run(rc *RunCtx) *Violation {
	w := rc.NewWorld(rc.Parties)
	var queued [2][][]byte // texts accepted by Send under require-encryption while not encrypted
	trigNames := []string{"query", "wstag", "error", "reqenc"}
	if rc.Cfg["refresh"] == 1 {
		if !w.Handshake(0) {
			return rc.Viol("setup.handshake", "initial query-initiated AKE did not complete", nil)
		}
		for i := 0; i < 2; i++ {
			r := w.P[i].Send(w.GenText(w.P[i], 2, 0))
			w.Enqueue(w.P[i], r)
		}
		w.Drain(10000)
		w.Tick(tickDur[4])
		w.Got[0], w.Got[1] = nil, nil
	}
	if rc.Cfg["refresh"] == 2 {
		// a session that existed and was ended: by one side (the other is left in the finished
		// state) or by both users
		if !w.Handshake(0) {
			return rc.Viol("setup.handshake", "initial query-initiated AKE did not complete", nil)
		}
		for i := 0; i < 2; i++ {
			r := w.P[i].Send(w.GenText(w.P[i], 2, 0))
			w.Enqueue(w.P[i], r)
		}
		w.Drain(10000)
		e := w.P[rc.Cfg["ender"]%2]
		r := e.End()
		w.Enqueue(e, r)
		w.Drain(10000)
		if rc.Cfg["bothend"] == 1 {
			q := w.P[1-e.Idx]
			r = q.End()
			w.Enqueue(q, r)
			w.Drain(10000)
		}
		w.Tick(tickDur[4])
		w.Got[0], w.Got[1] = nil, nil
		w.Fault("earlier-session-ended")
	}
	preEnc := [2]bool{w.P[0].Conv.IsEncrypted(), w.P[1].Conv.IsEncrypted()}
	akeDeliveries := 0
	second := false
	delivAtStart := w.Deliveries
	oldSSID := [2][8]byte{w.P[0].Conv.GetSSID(), w.P[1].Conv.GetSSID()}
	order := ""
	doTrigger := func(s, kind, n int) *Violation {
		p := w.P[s]
		switch kind {
		case 0:
			w.Put(p.Idx, p.Cfg.Peer, p.Query(), true, -1, -1, "query")
		case 1, 3:
			txt := w.GenText(p, 2, 0)
			enc := p.Conv.IsEncrypted()
			r := p.Send(txt)
			if r.Panic != "" {
				return rc.Viol("panic", r.Panic, nil)
			}
			if kind == 3 && !enc && r.Err == "" {
				queued[s] = append(queued[s], txt)
			}
			w.Enqueue(p, r)
		case 2:
			// the peer reports an error; p restarts the exchange under its error-start policy
			w.Put(p.Cfg.Peer, p.Idx, []byte("?OTR Error: something went wrong"), false, -1, -1, "error-trigger")
		}
		return nil
	}
	gen := func() (Step, bool) {
		r := rc.Rng
		// phase 1: triggers
		if len(rc.Steps) == 0 {
			first := rc.Cfg["who"]
			if first == 2 {
				first = r.Intn(2)
			}
			return Step{K: "trigger", A: first, B: rc.Cfg[fmt.Sprintf("trig%d", first)]}, true
		}
		if len(rc.Steps) == 1 && rc.Cfg["who"] == 2 {
			// second starter; optionally let some deliveries happen first
			if r.Chance(2, 3) || w.TotalInFlight() == 0 {
				o := 1 - rc.Steps[0].A
				second = true
				return Step{K: "trigger", A: o, B: rc.Cfg[fmt.Sprintf("trig%d", o)]}, true
			}
		}
		trigs := 0
		for _, s := range rc.Steps {
			if s.K == "trigger" {
				trigs++
			}
		}
		if rc.Cfg["who"] == 2 && trigs < 2 && !second && (r.Chance(1, 3) || w.TotalInFlight() == 0) {
			o := 1 - rc.Steps[0].A
			second = true
			return Step{K: "trigger", A: o, B: rc.Cfg[fmt.Sprintf("trig%d", o)]}, true
		}
		// several Sends under require-encryption, all before the first delivery
		// (one start per side: a new start while an exchange is already running is a
		// different, protocol-inherent race and carries no obligation here)
		for s := 0; s < 2; s++ {
			if rc.Cfg[fmt.Sprintf("trig%d", s)] == 3 && len(queued[s]) > 0 && len(queued[s]) < 3 && w.Deliveries == delivAtStart && r.Chance(1, 3) {
				return Step{K: "trigger", A: s, B: 3}, true
			}
		}
		if w.TotalInFlight() == 0 {
			return Step{}, false
		}
		if rc.Cfg["tickiness"] > 0 && r.Chance(rc.Cfg["tickiness"], 12) {
			return Step{K: "tick", A: []int{1, 1, 5, 2, 3}[r.Intn(5)]}, true
		}
		a := r.Intn(2)
		if w.InFlight(a, 1-a) == 0 {
			a = 1 - a
		}
		return Step{K: "deliver", A: a, B: 1 - a}, true
	}
	shape := func(outcome string) map[string]string {
		who := []string{"A", "B", "both"}[rc.Cfg["who"]]
		t := ""
		for s := 0; s < 2; s++ {
			if k := rc.Cfg[fmt.Sprintf("trig%d", s)]; k >= 0 {
				t += trigNames[k] + ","
			}
		}
		return map[string]string{"start": who, "outcome": outcome, "refresh": fmt.Sprint(rc.Cfg["refresh"])}
	}
	for {
		s, ok := rc.NextStep(gen)
		if !ok {
			break
		}
		switch s.K {
		case "trigger":
			if v := doTrigger(s.A%2, s.B%4, 0); v != nil {
				return v
			}
			order += "T" + fmt.Sprint(s.A%2)
		case "deliver":
			s.C = 0
			r, _ := w.Exec(s)
			if r != nil {
				if r.Panic != "" {
					return rc.Viol("panic", fmt.Sprintf("%s.Receive panicked: %s\n%s", w.P[r.Party].Name, r.Panic, r.Stack), nil)
				}
				if bytes.HasPrefix(r.In, []byte("?OTR:")) || bytes.HasPrefix(r.In, []byte("?OTR|")) || bytes.HasPrefix(r.In, []byte("?OTR,")) {
					akeDeliveries++
				}
				order += fmt.Sprint(s.A % 2)
			}
		default:
			w.Exec(s)
		}
	}
	// liveness: drain whatever is left (replayed/shrunk traces may stop early)
	if !w.Drain(5000) {
		return rc.Viol("liveness.no-quiescence", "network not quiescent after 5000 further deliveries", shape("no-quiescence"))
	}
	// any trigger at all?
	trigs := 0
	for _, s := range rc.Steps {
		if s.K == "trigger" {
			trigs++
		}
	}
	if trigs == 0 {
		return nil
	}
	a, b := w.P[0], w.P[1]
	ea, eb := a.Conv.IsEncrypted(), b.Conv.IsEncrypted()
	if !ea || !eb {
		return rc.Viol("liveness.common-session", fmt.Sprintf("after the triggers and drain: A encrypted=%v B encrypted=%v (before: %v)", ea, eb, preEnc),
			shape(fmt.Sprintf("encA=%v,encB=%v", ea, eb)))
	}
	pa, pb := a.post(), b.post()
	if rc.Cfg["refresh"] == 1 && (pa.SSID == oldSSID[0] || pb.SSID == oldSSID[1]) {
		return rc.Viol("liveness.common-session", fmt.Sprintf("refresh started while encrypted did not produce a new session: A ssid %x->%x, B ssid %x->%x", oldSSID[0], pa.SSID, oldSSID[1], pb.SSID),
			shape("not-refreshed"))
	}
	if pa.SSID != pb.SSID {
		return rc.Viol("agreement.ssid", fmt.Sprintf("SSID differs: A=%x B=%x", pa.SSID, pb.SSID), shape("ssid-differs"))
	}
	if pa.HL == pb.HL {
		return rc.Viol("agreement.highlight", fmt.Sprintf("SSID highlight halves not complementary: both %d", pa.HL), shape("highlight"))
	}
	if pa.FP != keyFP(rc.Parties[1].KeyIdx) || pb.FP != keyFP(rc.Parties[0].KeyIdx) {
		return rc.Viol("agreement.fingerprint", "reported peer fingerprints do not cross-match", shape("fingerprint"))
	}
	// queued texts must have arrived exactly once, in order, before the probes
	for s := 0; s < 2; s++ {
		got := w.Got[1-s]
		// under the whitespace-tag trigger the clear text is delivered too; only reqenc texts are queued
		var want [][]byte
		want = append(want, queued[s]...)
		var gotQ [][]byte
		for _, g := range got {
			for _, q := range want {
				if bytes.Equal(g, q) {
					gotQ = append(gotQ, g)
				}
			}
		}
		if len(gotQ) > len(want) {
			return rc.Viol("queued.duplicate", fmt.Sprintf("%s queued %d texts under require-encryption, %s received %d copies", w.P[s].Name, len(want), w.P[1-s].Name, len(gotQ)),
				shape(fmt.Sprintf("queued-%d-got-%d", len(want), len(gotQ))))
		}
		if len(gotQ) < len(want) {
			// Loss of a queued text is not part of C07's statement (the exchange did
			// complete); exactly-once release of queued texts is decided by C18.
			rc.ProbeN("queued_texts_lost_(C18)", len(want)-len(gotQ))
			continue
		}
		for i := range want {
			if !bytes.Equal(want[i], gotQ[i]) {
				return rc.Viol("queued.order", "queued texts delivered out of order", shape("queued-order"))
			}
		}
	}
	for s := 0; s < 2; s++ {
		p := w.P[s]
		txt := w.GenText(p, 2, 0)
		r := p.Send(txt)
		w.Enqueue(p, r)
		w.Drain(5000)
		got := w.Got[1-s]
		if len(got) == 0 || !bytes.Equal(got[len(got)-1], txt) {
			return rc.Viol("agreement.probe", fmt.Sprintf("probe text from %s not delivered to %s (send err=%q)", p.Name, w.P[1-s].Name, r.Err), shape("probe-lost"))
		}
	}
	rc.Stats.Nontrivial = akeDeliveries >= 4
	rc.Stats.Sig = fmt.Sprintf("p%d/%d f%d/%d r%d %s", rc.Parties[0].Pol, rc.Parties[1].Pol, rc.Parties[0].Frag, rc.Parties[1].Frag, rc.Cfg["refresh"], order)
	rc.Probe("start_" + []string{"A", "B", "both"}[rc.Cfg["who"]])
	for s := 0; s < 2; s++ {
		if k := rc.Cfg[fmt.Sprintf("trig%d", s)]; k >= 0 {
			rc.Probe("trigger_" + trigNames[k])
		}
	}
	if rc.Cfg["refresh"] == 1 {
		rc.Probe("refresh")
	}
	rc.ProbeN("queued_texts", len(queued[0])+len(queued[1]))
	return nil
}
