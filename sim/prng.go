package sim

// Deterministic PRNG (splitmix64). Every choice of the simulator is derived
// from one of these, all forked from the run seed. No global state.

import (
	"encoding/binary"
	"hash/fnv"
)

type PRNG struct{ s uint64 }

func NewPRNG(seed uint64) *PRNG { return &PRNG{s: seed} }

func (p *PRNG) Next() uint64 {
	p.s += 0x9e3779b97f4a7c15
	z := p.s
	z = (z ^ (z >> 30)) * 0xbf58476d1ce4e5b9
	z = (z ^ (z >> 27)) * 0x94d049bb133111eb
	return z ^ (z >> 31)
}

// Intn returns a value in [0,n). n<=0 returns 0.
func (p *PRNG) Intn(n int) int {
	if n <= 1 {
		return 0
	}
	return int(p.Next() % uint64(n))
}

func (p *PRNG) Bool() bool { return p.Next()&1 == 1 }

// Chance returns true with probability num/den.
func (p *PRNG) Chance(num, den int) bool { return p.Intn(den) < num }

func (p *PRNG) Fill(b []byte) {
	i := 0
	for i+8 <= len(b) {
		binary.BigEndian.PutUint64(b[i:], p.Next())
		i += 8
	}
	if i < len(b) {
		var t [8]byte
		binary.BigEndian.PutUint64(t[:], p.Next())
		copy(b[i:], t[:])
	}
}

func (p *PRNG) Bytes(n int) []byte {
	b := make([]byte, n)
	p.Fill(b)
	return b
}

// Pick returns an index according to integer weights (all >= 0, sum > 0).
func (p *PRNG) Pick(weights []int) int {
	sum := 0
	for _, w := range weights {
		sum += w
	}
	if sum <= 0 {
		return 0
	}
	x := p.Intn(sum)
	for i, w := range weights {
		if x < w {
			return i
		}
		x -= w
	}
	return len(weights) - 1
}

// Mix derives a new 64-bit value from a seed and a label; used to fork
// independent streams (per party, per purpose) from one run seed.
func Mix(seed uint64, label string, n uint64) uint64 {
	h := fnv.New64a()
	var b [16]byte
	binary.BigEndian.PutUint64(b[:8], seed)
	binary.BigEndian.PutUint64(b[8:], n)
	_, _ = h.Write(b[:])
	_, _ = h.Write([]byte(label))
	x := NewPRNG(h.Sum64())
	x.Next()
	return x.Next()
}

func Fork(seed uint64, label string, n uint64) *PRNG { return NewPRNG(Mix(seed, label, n)) }
