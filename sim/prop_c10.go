package sim

import (
	"fmt"
	"strings"
)

// C10 – everything on the wire is what the OTR v2/v3 specification prescribes.
// Decided by the shadow reference implementation (omni.go): every AKE message
// a real party emits must be byte-identical to what the independent
// implementation produces from the same secrets and inputs; every data message
// must carry the key ids, next key, counter, ciphertext, MAC and TLV layout the
// specification prescribes for the party's state; SSID, fingerprints, highlight
// half and extra symmetric key must agree. The reverse direction (messages
// built by the reference are accepted and read correctly) is run with the
// reference as an active peer.

func init() {
	Register(&PropDef{
		ID: "C10", Title: "wire conformance against an independent implementation",
		Config: c10Config, Run: c10Run, MaxSteps: 160,
		Rule: "runs = PRNG-generated mixed session histories (AKE in both roles, traffic with rotations, heartbeats, SMP with equal/different secrets, extra key, End and restart, refresh, fragment sizes, both versions); in half of the runs party B is the reference implementation acting as a live peer; " +
			"every emitted message is checked against the shadow reference; non-trivial = at least one AKE, 6 data messages and one non-padding TLV checked; distinct = distinct (config, step-kind sequence) signatures",
		Assume: []string{"the oracle is refotr (/verif/sim/refotr), an implementation written from the protocol specification that imports nothing from otr3; DESIGN.md appendix B lists the specification facts it is built from",
			"otr3-specific but specification-compatible choices are accepted: padding TLV, heartbeats, 4-byte value in the SMP-abort TLV, abort instead of SMP4 after a failed comparison"},
	})
}

func c10Config(rc *RunCtx) {
	r := rc.Rng
	rc.Cfg["version"] = []int{2, 3, 3, 23}[r.Intn(4)]
	rc.Cfg["alphabet"] = r.Intn(2)
	if r.Chance(1, 8) {
		rc.Cfg["alphabet"] = 4 // text ending in blanks (texts that look like protocol are left to C03/C04: sent in clear they ARE protocol to the peer and to the shadow)
	}
	rc.Cfg["starter"] = r.Intn(2)
	rc.Cfg["refpeer"] = r.Intn(2)
	if rc.Cfg["refpeer"] == 1 && rc.Cfg["version"] == 23 {
		rc.Cfg["version"] = 2 + r.Intn(2)
	}
	pol := polFor(rc.Cfg["version"])
	fa, fb := 0, 0
	if r.Chance(1, 2) {
		fa = fragSizes[PickFrag(r)]
	}
	if r.Chance(1, 2) {
		fb = fragSizes[PickFrag(r)]
	}
	rc.Parties = []PartyCfg{
		{KeyIdx: 0, Pol: pol, Frag: fa, Peer: 1, ErrHandler: r.Bool()},
		{KeyIdx: 1, Pol: pol, Frag: fb, Peer: 0, ErrHandler: r.Bool()},
	}
	rc.Cfg["wsstart"] = 0
	if rc.Cfg["refpeer"] == 1 && r.Chance(1, 4) {
		rc.Cfg["wsstart"] = 1 // the session is started by the reference peer's whitespace tag
		rc.Parties[0].Pol |= PolWSStart
	}
}

func divViolation(rc *RunCtx, o *Omni) *Violation {
	if len(o.Div) == 0 {
		return nil
	}
	d := o.Div[0]
	// shape: the text after the party/call prefix, digits removed
	cls := d
	if i := strings.Index(cls, ": "); i >= 0 {
		cls = cls[i+2:]
	}
	cls = stripDigits(cls)
	if len(cls) > 70 {
		cls = cls[:70]
	}
	return rc.Viol("divergence", strings.Join(o.Div, "\n"), map[string]string{"class": cls})
}

func stripDigits(s string) string {
	// drop decimal digits and runs of 6 or more hex characters (addresses, hashes, keys)
	b := make([]byte, 0, len(s))
	for i := 0; i < len(s); {
		j := i
		for j < len(s) && isHex(s[j]) {
			j++
		}
		if j-i >= 6 {
			i = j
			continue
		}
		if s[i] >= '0' && s[i] <= '9' {
			i++
			continue
		}
		b = append(b, s[i])
		i++
	}
	return string(b)
}

func isHex(c byte) bool { return (c >= '0' && c <= '9') || (c >= 'a' && c <= 'f') }

func c10Run(rc *RunCtx) *Violation {
	if rc.Cfg["refpeer"] == 1 {
		return c10RefRun(rc)
	}
	w := rc.NewWorld(rc.Parties)
	o := NewOmni(w)
	ask := [2]bool{}
	w.Observers = append(w.Observers, func(p *Party, r *CallResult) {
		if r.HasEvent("smp", "AskForSecret") || r.HasEvent("smp", "AskForAnswer") {
			ask[p.Idx] = true
		}
		if r.Kind == "smpanswer" || r.HasEvent("smp", "Abort") {
			ask[p.Idx] = false
		}
	})
	kinds := ""
	started := false
	gen := func() (Step, bool) {
		r := rc.Rng
		encA, encB := w.P[0].Conv.IsEncrypted(), w.P[1].Conv.IsEncrypted()
		fly := [2]int{w.InFlight(0, 1), w.InFlight(1, 0)}
		if !started {
			started = true
			return Step{K: "query", A: rc.Cfg["starter"]}, true
		}
		// query sendA sendB delAB delBA tick end smpstart smpanswer extrakey setfrag smpabort
		wt := []int{0, 8, 8, 16, 16, 2, 0, 0, 0, 0, 1, 0}
		if fly[0] == 0 {
			wt[3] = 0
		}
		if fly[1] == 0 {
			wt[4] = 0
		}
		if fly[0]+fly[1] == 0 && (!encA || !encB) {
			wt[0] = 10
		}
		if encA && encB {
			wt[6] = 1
			wt[7] = 2
			wt[9] = 2
			wt[11] = 1
			if fly[0]+fly[1] == 0 {
				wt[0] = 1 // refresh (effective only >60 s after the last change)
			}
			if ask[0] || ask[1] {
				wt[8] = 8
			}
		}
		switch r.Pick(wt) {
		case 0:
			// only one side starts at a time: simultaneous starts are C07's known finding
			return Step{K: "query", A: r.Intn(2)}, true
		case 1:
			return Step{K: "send", A: 0, B: 1 + r.Intn(5), C: rc.Cfg["alphabet"]}, true
		case 2:
			return Step{K: "send", A: 1, B: 1 + r.Intn(5), C: rc.Cfg["alphabet"]}, true
		case 3:
			return Step{K: "deliver", A: 0, B: 1}, true
		case 4:
			return Step{K: "deliver", A: 1, B: 0}, true
		case 5:
			return Step{K: "tick", A: r.Intn(len(tickDur))}, true
		case 6:
			return Step{K: "end", A: r.Intn(2)}, true
		case 7:
			return Step{K: "smpstart", A: r.Intn(2), B: r.Intn(2), C: r.Intn(2)}, true
		case 8:
			who := 0
			if ask[1] && (!ask[0] || r.Bool()) {
				who = 1
			}
			return Step{K: "smpanswer", A: who, C: r.Intn(2)}, true
		case 9:
			return Step{K: "extrakey", A: r.Intn(2), B: r.Intn(1000), C: r.Intn(3)}, true
		case 10:
			return Step{K: "setfrag", A: r.Intn(2), B: PickFrag(r)}, true
		default:
			return Step{K: "smpabort", A: r.Intn(2)}, true
		}
	}
	for {
		s, ok := rc.NextStep(gen)
		if !ok {
			break
		}
		if s.K == "deliver" {
			s.C = 0
		}
		if s.K == "query" && w.TotalInFlight() > 0 {
			continue // keep starts sequential (see above)
		}
		res, known := w.Exec(s)
		if !known {
			continue
		}
		if res != nil && res.Panic != "" {
			rc.Probe("incidental_panics")
		}
		kinds += s.K[:2] + fmt.Sprint(s.A%2)
		if v := divViolation(rc, o); v != nil {
			return v
		}
	}
	w.Drain(100000)
	if v := divViolation(rc, o); v != nil {
		return v
	}
	akes, datas, tlvs := 0, 0, 0
	for _, m := range o.Msgs {
		if isAKE(m.Parsed) {
			akes++
		} else if m.OK {
			datas++
			for _, t := range m.TLVs {
				if t.Type != 0 {
					tlvs++
				}
			}
		}
	}
	rc.Stats.Nontrivial = akes >= 4 && datas >= 6 && tlvs >= 1
	rc.Stats.Sig = fmt.Sprintf("v%d f%d/%d %s", rc.Cfg["version"], rc.Parties[0].Frag, rc.Parties[1].Frag, kinds)
	rc.ProbeN("ake_messages_byte_compared", akes)
	rc.ProbeN("data_messages_decoded", datas)
	rc.ProbeN("non_padding_tlvs", tlvs)
	rc.ProbeN("sessions", len(o.Sh[0].Sess)+len(o.Sh[1].Sess))
	return nil
}
