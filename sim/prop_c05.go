package sim

import (
	"fmt"

	"verifsim/refotr"
)

// C05 – no data message is ever accepted twice.

func init() {
	Register(&PropDef{
		ID: "C05", Title: "no data message is accepted twice",
		Config: c05Config, Run: c05Run, MaxSteps: 120,
		Rule: "runs = encrypted pair on a duplicating, reordering network with an archive of every wire message and fragment; steps duplicate, deliver out of order, replay archived messages (at once, after further traffic and rotations, after End + new AKE), including TLV-only messages (SMP, extra key, disconnect) and fragments; in a fifth of the runs the peer is the reference implementation, which also sends what otr3 never sends itself (text together with the IGNORE_UNREADABLE flag, text with TLVs), and copies of accepted messages arrive again; " +
			"non-trivial = at least 3 re-deliveries of previously accepted messages happened; distinct = distinct step sequences",
		Assume: []string{"every generated text is unique, so a second delivery of a text is attributable to a re-delivered message"},
	})
}

func c05Config(rc *RunCtx) {
	awConfig(rc)
	r := rc.Rng
	rc.Cfg["resession"] = r.Intn(2)
	rc.Cfg["xkey"] = r.Intn(2)
	rc.Cfg["foreign"] = r.Intn(5) / 4 // a fifth of the runs: the peer is another implementation (see prop_c05foreign.go)
	if r.Chance(1, 3) {
		f := []int{100, 200, 1000}[r.Intn(3)]
		rc.Parties[0].Frag, rc.Parties[1].Frag = f, f
		rc.Cfg["frag"] = f
	}
}

func c05Run(rc *RunCtx) *Violation {
	if rc.Cfg["foreign"] == 1 {
		return c05Foreign(rc)
	}
	aw, v := newAW(rc)
	if v != nil {
		return v
	}
	w := aw.w
	var viol *Violation
	accepted := map[int]bool{} // origin wire ID -> accepted by its receiver
	counts := []map[string]int{{}, {}}
	redeliveries := 0
	w.Observers = append(w.Observers, func(p *Party, r *CallResult) {
		if viol != nil || r.Kind != "recv" || w.CurWire == nil {
			return
		}
		x := w.CurWire
		if r.Plain != nil && r.Post.Enc {
			k := string(r.Plain)
			counts[p.Idx][k]++
			if counts[p.Idx][k] > 1 && !r.HasEvent("msg", "ReceivedMessageUnencrypted") {
				viol = rc.Viol("delivered.twice", fmt.Sprintf("%s.Receive returned the text %s a second time (wire %d, %s)", p.Name, short(r.Plain), x.ID, x.Note),
					map[string]string{"via": x.Note})
				return
			}
		}
		if !refotr.IsArmored(x.Bytes) || x.AuthChanged || !dataTyped(x.Bytes) {
			return // the re-delivery rules are about data messages (AKE replays are C01's)
		}
		og := aw.origin(x)
		acted := actedEvents(r)
		if accepted[og.ID] {
			redeliveries++
			if r.Plain != nil {
				viol = rc.Viol("redelivery.plaintext", fmt.Sprintf("%s.Receive returned %s for a message it had already accepted (wire %d derived from %d)", p.Name, short(r.Plain), x.ID, og.ID), map[string]string{"via": x.Note})
				return
			}
			if len(acted) > 0 {
				viol = rc.Viol("redelivery.tlv-reapplied", fmt.Sprintf("%s re-applied the TLVs of a message it had already accepted: events %v", p.Name, acted), map[string]string{"event": acted[0]})
				return
			}
			if hasDataOut(r) {
				viol = rc.Viol("redelivery.answered", fmt.Sprintf("%s answered a re-delivered message with a data message", p.Name), nil)
				return
			}
			return
		}
		if vd := aw.o.Verdict[r.Seq]; r.Plain != nil || len(acted) > 0 || (vd != nil && vd.Accepted && vd.IsData && r.Err == "") {
			accepted[og.ID] = true
		}
	})
	// sendA sendB deliver drop dup tick mutate replay plain resession smpstart smpanswer extrakey deliverOOO
	wt := []int{8, 8, 14, 1, 6, 1, 0, 10, 0, 0, 0, 0, 0, 5}
	if rc.Cfg["smp"] == 1 {
		wt[10], wt[11] = 2, 6
	}
	if rc.Cfg["xkey"] == 1 {
		wt[12] = 2
	}
	if rc.Cfg["resession"] == 1 {
		wt[9] = 1
	}
	for {
		s, ok := rc.NextStep(func() (Step, bool) { return aw.gen(wt) })
		if !ok {
			break
		}
		aw.exec(s)
		aw.kinds += s.K[:2]
		if viol != nil {
			return viol
		}
	}
	w.Drain(5000)
	if viol != nil {
		return viol
	}
	rc.Stats.Nontrivial = redeliveries >= 3
	rc.Stats.Sig = fmt.Sprintf("v%d p%d f%d %s", rc.Cfg["version"], rc.Cfg["prefix"], rc.Cfg["frag"], aw.kinds)
	rc.ProbeN("redeliveries_of_accepted_messages", redeliveries)
	rc.ProbeN("replays", aw.replayed)
	return nil
}
