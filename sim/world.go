package sim

import (
	"crypto/sha256"
	"encoding/hex"
	"fmt"
	"hash"
	"sort"
	"strings"
	"sync/atomic"
	"time"
)

// Wire is one message in flight or archived.
type Wire struct {
	ID          int
	From        int
	To          int
	Bytes       []byte
	Genuine     bool   // produced by a real party and not modified since
	Parent      int    // ID of the wire this one was derived from (dup/mutate), or -1
	Call        int    // call sequence number that produced it (genuine) or -1
	Note        string // attacker's description
	Epoch       int    // sender's session epoch when produced (maintained by properties that need it)
	AuthChanged bool   // attacker changed the authenticated range / MAC / made it unparsable
	Class       string // attacker's mutation class
	Origin      int    // ID of the genuine wire this one derives from (-1: none / itself genuine)
	Delivered   int    // how many times it was delivered
}

type World struct {
	NoBeat  bool // do not touch the shared watchdog counter (C20 parallel mode)
	Seed    uint64
	P       []*Party
	Links   [][][]*Wire // [from][to]
	Arch    []*Wire     // every wire message ever produced or crafted
	Seq     int
	Last    *CallResult
	CurWire *Wire // wire being delivered right now (visible to observers)

	logH     hash.Hash
	LogKeep  bool
	LogLines []string

	Observers  []func(p *Party, r *CallResult)
	Faults     map[string]int // fault kind -> times it actually fired
	EvCount    map[string]int // event kind:name -> count over the run
	Panics     int
	SimTime    time.Duration
	nextWire   int
	Deliveries int

	// delivered plaintexts per receiving party, in order
	Got [][][]byte
}

var heartbeat atomic.Int64   // watchdog progress counter (the watchdog lives outside the bubble)
var noBeatPhase atomic.Int32 // set by the main goroutine of a run while free-running goroutines under test are at work (C20)

func (w *World) beat() {
	if w.NoBeat {
		// an atomic counter shared by all goroutines is a synchronisation point: it would order
		// the calls of free-running conversations for the race detector and hide races between them
		return
	}
	heartbeat.Add(1)
}

func NewWorld(seed uint64, cfgs []PartyCfg) *World {
	w := &World{Seed: seed, logH: sha256.New(), Faults: map[string]int{}, EvCount: map[string]int{}}
	n := len(cfgs)
	w.Links = make([][][]*Wire, n)
	for i := range w.Links {
		w.Links[i] = make([][]*Wire, n)
	}
	w.Got = make([][][]byte, n)
	for i, c := range cfgs {
		p := &Party{W: w, Idx: i, Name: string(rune('A' + i)), Cfg: c, Key: TestKey(c.KeyIdx)}
		if c.SharedKey {
			p.Key = SharedKey(c.KeyIdx)
		}
		p.build()
		w.P = append(w.P, p)
	}
	return w
}

func (w *World) Logf(format string, a ...interface{}) {
	s := fmt.Sprintf(format, a...)
	_, _ = w.logH.Write([]byte(s))
	_, _ = w.logH.Write([]byte{'\n'})
	if w.LogKeep {
		w.LogLines = append(w.LogLines, s)
	}
}

func (w *World) Digest() string { return hex.EncodeToString(w.logH.Sum(nil))[:32] }

func short(b []byte) string {
	if b == nil {
		return "nil"
	}
	if len(b) <= 24 {
		return fmt.Sprintf("%q", b)
	}
	h := sha256.Sum256(b)
	return fmt.Sprintf("%q..(%d,%x)", b[:16], len(b), h[:6])
}

func (w *World) logCall(p *Party, r *CallResult) {
	ev := ""
	for _, e := range r.Events {
		ev += " " + e.String()
	}
	// (a Send can return 65 000 fragments: build the line in linear time)
	var ob strings.Builder
	for _, o := range r.Out {
		ob.WriteByte(' ')
		ob.WriteString(short(o))
	}
	outs := ob.String()
	w.Logf("#%d %s.%s in=%s plain=%s out=[%s] err=%q panic=%q ev=[%s] enc=%v ssid=%x fp=%.8s tt=%x hl=%d rd=%d",
		r.Seq, p.Name, r.Kind, short(r.In), short(r.Plain), outs, r.Err, r.Panic, ev,
		r.Post.Enc, r.Post.SSID, r.Post.FP, r.Post.TheirTag, r.Post.HL, p.Rand.Reads())
}

func (w *World) Fault(kind string) { w.Faults[kind]++ }

// Enqueue puts the output of a call by party p on the link to its peer.
func (w *World) Enqueue(p *Party, r *CallResult) []*Wire {
	var ws []*Wire
	for _, o := range r.Out {
		ws = append(ws, w.Put(p.Idx, p.Cfg.Peer, o, true, -1, r.Seq, ""))
	}
	return ws
}

func (w *World) Put(from, to int, b []byte, genuine bool, parent, call int, note string) *Wire {
	x := &Wire{ID: w.nextWire, From: from, To: to, Bytes: cp(b), Genuine: genuine, Parent: parent, Call: call, Note: note, Origin: -1}
	w.nextWire++
	w.Links[from][to] = append(w.Links[from][to], x)
	w.Arch = append(w.Arch, x)
	return x
}

func (w *World) InFlight(from, to int) int { return len(w.Links[from][to]) }

func (w *World) TotalInFlight() int {
	n := 0
	for i := range w.Links {
		for j := range w.Links[i] {
			n += len(w.Links[i][j])
		}
	}
	return n
}

// Take removes and returns the idx-th in-flight message on a link.
func (w *World) Take(from, to, idx int) *Wire {
	l := w.Links[from][to]
	if len(l) == 0 {
		return nil
	}
	idx %= len(l)
	x := l[idx]
	w.Links[from][to] = append(append([]*Wire{}, l[:idx]...), l[idx+1:]...)
	return x
}

// Deliver hands wire x to its destination party and enqueues the replies.
func (w *World) Deliver(x *Wire) *CallResult {
	p := w.P[x.To]
	w.Logf("deliver wire=%d %d->%d genuine=%v note=%s", x.ID, x.From, x.To, x.Genuine, x.Note)
	w.CurWire = x
	r := p.Receive(x.Bytes)
	w.CurWire = nil
	x.Delivered++
	w.Deliveries++
	if r.Plain != nil {
		w.Got[p.Idx] = append(w.Got[p.Idx], r.Plain)
	}
	w.Enqueue(p, r)
	return r
}

// Tick advances the simulated clock (we run inside a synctest bubble, so
// time.Sleep moves the fake clock at no wall cost).
func (w *World) Tick(d time.Duration) {
	if d > 0 {
		time.Sleep(d)
	}
	w.SimTime += d
	w.Logf("tick %v", d)
}

// Drain delivers everything in flight in FIFO order, round-robin over links,
// until quiescence or until max deliveries. Returns false if not quiescent.
func (w *World) Drain(max int) bool {
	for n := 0; n < max; {
		did := false
		for i := range w.Links {
			for j := range w.Links[i] {
				if len(w.Links[i][j]) > 0 {
					w.Deliver(w.Take(i, j, 0))
					did = true
					n++
				}
			}
		}
		if !did {
			return true
		}
	}
	return w.TotalInFlight() == 0
}

// Crash discards party i's conversation (all volatile state) and creates a
// fresh one with the same long-term key. keepTag: the client persisted its tag.
func (w *World) Crash(i int, keepTag bool) {
	p := w.P[i]
	if keepTag {
		if p.Ref != nil {
			p.Cfg.Tag = p.Ref.OurTag
		} else {
			p.Cfg.Tag = p.Conv.GetOurInstanceTag()
		}
	} else {
		p.Cfg.Tag = 0
	}
	p.Incar++
	p.build()
	w.Fault("crash")
	w.Logf("crash %s keepTag=%v", p.Name, keepTag)
}

func sortedKeys(m map[string]int) []string {
	var ks []string
	for k := range m {
		ks = append(ks, k)
	}
	sort.Strings(ks)
	return ks
}

// GenText returns the n-th unique text of party p. Texts start with a marker
// that makes each one attributable to exactly one Send call.
func (w *World) GenText(p *Party, class int, alphabet int) []byte {
	lens := []int{0, 3, 12, 40, 200, 900, 3000, 20000, 70000}
	n := p.Sends
	p.Sends++
	pr := Fork(w.Seed, "text."+p.Name, uint64(n))
	ln := lens[class%len(lens)]
	if ln > 40 {
		ln = ln/2 + pr.Intn(ln/2+1)
	}
	t := []byte(fmt.Sprintf("T%s%d.%d:", p.Name, p.Incar, n))
	// alphabets 2..5 decorate a printable text: 2 = the text itself begins like an OTR query
	// ("?OTRv3? is what my client shows ..."), 3 = like an OTR error, 4 = it ends in blanks and
	// tabs, 5 = it begins like an encoded message. What the user types is the user's business.
	deco := alphabet
	if alphabet >= 2 {
		alphabet = 0
	}
	switch deco {
	case 2:
		t = append([]byte([]string{"?OTRv3? ", "?OTR?v2? ", "?OTRv23? ", "?OTR? "}[pr.Intn(4)]), t...)
	case 3:
		t = append([]byte("?OTR Error: "), t...)
	case 5:
		t = append([]byte("?OTR:AAMD"), t...)
	}
	for i := 0; i < ln; i++ {
		var c byte
		switch alphabet {
		case 0: // printable ASCII without space/tab
			c = byte(33 + pr.Intn(94))
		default: // any byte except NUL and TAB
			for c == 0 || c == 9 {
				c = byte(pr.Intn(256))
			}
		}
		t = append(t, c)
	}
	if deco == 6 {
		// a NUL inside the text, followed by bytes that look like a TLV (disconnect / SMP abort /
		// padding): a text is a text, nothing in it may be taken for protocol by the receiver
		t = append(t, []string{"\x00\x00\x01\x00\x00", "\x00\x00\x06\x00\x00", "\x00tail", "\x00\x00\x00\x00\x03abc"}[pr.Intn(4)]...)
	}
	if deco == 4 {
		t = append(t, []string{" ", "\t", "  \t ", " \t\t"}[pr.Intn(4)]...)
	}
	return t
}
