package sim

import (
	"bytes"
	"fmt"

	"verifsim/refotr"
)

// C18 – session lifecycle, security events and retransmission discipline.
// A small executable lifecycle model per party (state, queue of texts awaiting
// encryption, last message, may-retransmit) is stepped with the same inputs.

func init() {
	Register(&PropDef{
		ID: "C18", Title: "lifecycle, security events, retransmission discipline",
		Config: c18Config, Run: c18Run, MaxSteps: 100,
		Rule: "runs = PRNG-generated lifecycle histories on both sides in any order (start, complete or abandon AKE, Send in every state, End, peer End, genuine and injected OTR error messages, refresh while encrypted, restart of the peer, message loss, ticks, in a quarter of the runs single failures of the randomness source) under PRNG-chosen policy sets; after every call the model's state, the class of Send's outcome, the security events raised, and the per-text transmission count (decoded with the shadow reference's keys) are compared; " +
			"non-trivial = a party went through encrypted and (finished or ended) and at least 4 texts were accounted; distinct = distinct (policies, step sequence) signatures",
		Assume: []string{"one side starts at a time (simultaneous starts are C07's known finding)", "transmission accounting uses the shadow reference to decrypt emitted data messages; messages it cannot decode (shadow out of sync after an attacker-free but lossy history) are counted and skipped"},
	})
}

func c18Config(rc *RunCtx) {
	r := rc.Rng
	vs := []int{PolV3, PolV2, PolV2 | PolV3}
	v := vs[r.Intn(3)]
	pa, pb := v|r.Intn(16)<<2, v|r.Intn(16)<<2
	rc.Cfg["polA"], rc.Cfg["polB"] = pa, pb
	rc.Parties = []PartyCfg{{KeyIdx: 0, Pol: pa, Peer: 1, ErrHandler: r.Chance(2, 3)}, {KeyIdx: 1, Pol: pb, Peer: 0, ErrHandler: r.Chance(2, 3)}}
	rc.Cfg["randfault"] = r.Intn(4) / 3 // a quarter of the runs: single reads of a party's randomness source fail
}

type c18Text struct {
	text    []byte
	how     string // clear, data, queued, refused
	wire    int    // transmissions seen on the wire (clear or inside data messages)
	resent  int    // of which marked "[resent] "
	order   int
	errored bool // the peer reported an error after this was the last message
}

type c18Model struct {
	state   string // plaintext, encrypted, finished
	ssid    [8]byte
	texts   []*c18Text
	queue   []int // indices of texts awaiting encryption
	last    int   // index of the most recent message that went out encrypted (-1)
	mayRe   bool
	visited map[string]bool
	exempt  int // texts with a smaller index are exempt from the counting rules (a data message could not be decoded)
}

func c18Run(rc *RunCtx) *Violation {
	w := rc.NewWorld(rc.Parties)
	o := NewOmni(w)
	var viol *Violation
	ms := [2]*c18Model{{state: "plaintext", last: -1, visited: map[string]bool{}}, {state: "plaintext", last: -1, visited: map[string]bool{}}}
	accounted, skipped := 0, 0
	skippedBefore := [2]int{}
	fail := func(rule, detail string, shape map[string]string) {
		if viol == nil {
			viol = rc.Viol(rule, detail, shape)
		}
	}
	callKind := map[int]string{}
	firedSeen := [2]int{}
	mayLose := [2]map[int]bool{{}, {}} // queued texts whose release was interrupted by an injected fault: later or never
	w.Observers = append(w.Observers, func(p *Party, r *CallResult) {
		callKind[r.Seq] = r.Kind
		if viol != nil {
			return
		}
		m := ms[p.Idx]
		if r.Panic != "" {
			rc.Probe("incidental_panics")
			return
		}
		reqenc := p.Cfg.Pol&PolReqEnc != 0
		otrOn := p.Cfg.Pol&(PolV2|PolV3) != 0
		prevState := m.state
		// ---- security events must mirror the transition of IsEncrypted / SSID
		var sec []string
		for _, e := range r.Events {
			if e.Kind == "sec" {
				sec = append(sec, e.Name)
			}
		}
		wasEnc := prevState == "encrypted"
		var want []string
		switch {
		case !wasEnc && r.Post.Enc:
			want = []string{"GoneSecure"}
		case wasEnc && r.Post.Enc && r.Post.SSID != m.ssid:
			want = []string{"StillSecure"}
		case wasEnc && !r.Post.Enc:
			want = []string{"GoneInsecure"}
		}
		if fmt.Sprint(sec) != fmt.Sprint(want) {
			fail("events.security", fmt.Sprintf("%s.%s: IsEncrypted %v -> %v (ssid %x -> %x) but security events %v, expected %v", p.Name, r.Kind, wasEnc, r.Post.Enc, m.ssid, r.Post.SSID, sec, want),
				map[string]string{"got": fmt.Sprint(sec), "want": fmt.Sprint(want)})
			return
		}
		// ---- which transitions are legitimate
		if !wasEnc && r.Post.Enc && !(r.Kind == "recv" && hasPrefixAny(r.In, "?OTR:AAMR", "?OTR:AAIR", "?OTR:AAMS", "?OTR:AAIS", "?OTR|", "?OTR,")) {
			fail("lifecycle.encrypted", fmt.Sprintf("%s became encrypted in a %s call that did not deliver the final message of a key exchange", p.Name, r.Kind), nil)
			return
		}
		if wasEnc && !r.Post.Enc {
			peerEnd := false
			if vd := o.Verdict[r.Seq]; vd != nil && vd.Delivery != nil {
				for _, t := range vd.Delivery.TLVs {
					peerEnd = peerEnd || t.Type == refotr.TLVDisconnected
				}
			}
			if x := w.CurWire; x != nil && x.Genuine && x.Call >= 0 && callKind[x.Call] == "end" && r.Kind == "recv" {
				// provenance: this is the message the peer's End() produced (the shadow may have lost the
				// party, e.g. after a failed read of the randomness source)
				peerEnd = true
			}
			if r.Kind != "end" && !peerEnd {
				fail("lifecycle.left-encrypted", fmt.Sprintf("%s left the encrypted state in a %s call that is neither End() nor the delivery of the peer's disconnect (shadow verdict %+v; divergences %v)", p.Name, r.Kind, o.Verdict[r.Seq], o.Div), map[string]string{"call": r.Kind})
				return
			}
			if r.Kind == "end" {
				m.state = "plaintext"
			} else {
				m.state = "finished"
			}
			// the session is over: "the most recent message" that may be resent is a notion of
			// one session, nothing sent in this one may travel again in a later one
			m.last = -1
		} else if r.Post.Enc {
			m.state = "encrypted"
		} else if r.Kind == "end" {
			m.state = "plaintext"
		}
		m.ssid = r.Post.SSID
		m.visited[m.state] = true
		// ---- a data message that arrives outside a session (after a restart, after End, after the
		// peer's disconnect) is reported to the user AND answered with an OTR error message - that
		// reply is what lets the peer (error-start policy) bring the session back. Messages the
		// sender marked "ignore if unreadable" (heartbeats, SMP, disconnect) are exempt.
		if r.Kind == "recv" && otrOn && p.Cfg.ErrHandler && prevState != "encrypted" && !r.Post.Enc && r.HasEvent("msg", "ReceivedMessageNotInPrivate") {
			flagged := true
			if d, _, ok := parseDataLenient(r.In); ok {
				flagged = d.Flags&refotr.FlagIgnoreUnreadable != 0
			}
			hasErr := false
			for _, out := range r.Out {
				hasErr = hasErr || bytes.HasPrefix(out, []byte("?OTR Error"))
			}
			if !flagged && !hasErr {
				fail("notprivate.unanswered", fmt.Sprintf("%s (error message handler set) received a data message in state %s, told the user, but sent no OTR error message to the peer", p.Name, prevState), map[string]string{"state": prevState})
				return
			}
		}
		// ---- Send: outcome class
		if r.Kind == "send" && otrOn {
			t := &c18Text{text: cp(r.In), order: len(m.texts)}
			m.texts = append(m.texts, t)
			idx := len(m.texts) - 1
			switch prevState {
			case "finished":
				t.how = "refused"
				if r.Err == "" || len(r.Out) != 0 {
					fail("send.finished", fmt.Sprintf("%s.Send after the peer ended the session must refuse; got %d message(s), err=%q", p.Name, len(r.Out), r.Err), nil)
					return
				}
			case "plaintext":
				if reqenc {
					t.how = "queued"
					m.queue = append(m.queue, idx)
					if r.Err != "" || !r.HasEvent("msg", "EncryptionRequired") {
						fail("send.queued", fmt.Sprintf("%s.Send under require-encryption: err=%q events=%v", p.Name, r.Err, r.EventNames()), nil)
						return
					}
				} else {
					t.how = "clear"
					if len(r.Out) != 1 || !bytes.HasPrefix(r.Out[0], r.In) || r.Err != "" {
						fail("send.clear", fmt.Sprintf("%s.Send in plaintext state must return the text (plus an optional tag); got %s err=%q", p.Name, shortList(r.Out), r.Err), nil)
						return
					}
				}
			case "encrypted":
				t.how = "data"
				if r.Err != "" || len(r.Out) == 0 {
					fail("send.data", fmt.Sprintf("%s.Send in encrypted state: %d messages, err=%q", p.Name, len(r.Out), r.Err), nil)
					return
				}
			}
		}
		if r.Kind == "recv" && bytes.HasPrefix(r.In, []byte("?OTR Error")) && m.last >= 0 && m.state == "encrypted" {
			m.texts[m.last].errored = true
		}
		// ---- transmission accounting over everything this call put on the wire
		outs, err := reassembleOutputs(r.Out)
		if err != nil {
			return
		}
		for _, om := range outs {
			var carried []byte
			resent := false
			if !om.otr {
				if _, isQ := refotr.ParseQuery(om.raw); isQ && bytes.HasPrefix(om.raw, []byte("?OTR")) {
					continue
				}
				if bytes.HasPrefix(om.raw, []byte("?OTR Error")) {
					continue
				}
				carried, _, _ = refotr.FindWhitespaceTag(om.raw)
				if carried == nil {
					carried = om.raw
				}
			} else {
				mi := o.Find(om.raw)
				if mi == nil || mi.Data == nil {
					continue
				}
				if !mi.OK && string(mi.Text) == "[resent] " {
					fail("transmit.unknown", fmt.Sprintf("%s put a message on the wire that is marked as resent but carries no text (and a damaged TLV part): what was to be sent again has been lost", p.Name), map[string]string{"kind": "resent-empty"})
					return
				}
				if !mi.OK {
					// the shadow cannot decode this one (it lost track of the party, e.g. after a
					// DH-Commit collision): which texts it carried is unknown, so everything given
					// to Send so far is taken out of the counting rules
					skipped++
					m.exempt = len(m.texts)
					m.queue = nil
					continue
				}
				carried = mi.Text
				if bytes.HasPrefix(carried, []byte("[resent] ")) {
					carried, resent = carried[len("[resent] "):], true
				}
			}
			if len(carried) == 0 {
				if resent {
					fail("transmit.unknown", fmt.Sprintf("%s put a message on the wire that is marked as resent but carries no text: what was to be sent again has been lost (message text %q)", p.Name, mi2text(o, om.raw)), map[string]string{"kind": "resent-empty"})
					return
				}
				continue
			}
			var t *c18Text
			ti := -1
			for i := len(m.texts) - 1; i >= 0; i-- {
				if bytes.Equal(m.texts[i].text, carried) {
					t, ti = m.texts[i], i
					break
				}
			}
			if t == nil {
				fail("transmit.unknown", fmt.Sprintf("%s put %s on the wire, which was never given to Send", p.Name, short(carried)), nil)
				return
			}
			if ti < m.exempt {
				continue
			}
			accounted++
			t.wire++
			if resent {
				t.resent++
			}
			if t.wire == 1 && resent {
				fail("transmit.marked-first", fmt.Sprintf("%s transmitted the text of Send number %d (%s, %s) for the first time, yet marked as resent", p.Name, ti, short(t.text), t.how), map[string]string{"how": t.how})
				return
			}
			switch {
			case t.how == "refused":
				fail("transmit.refused", fmt.Sprintf("%s transmitted a text that Send refused", p.Name), nil)
			case t.how == "queued" && t.wire == 1:
				// released: must be in order, inside a data message, in a session
				if !om.otr {
					fail("transmit.queued-clear", fmt.Sprintf("%s released a queued text in clear", p.Name), nil)
				} else if skipLost(m, mayLose[p.Idx], ti); len(m.queue) == 0 || m.queue[0] != ti {
					fail("transmit.queue-order", fmt.Sprintf("%s released queued text number %d out of order (queue %v)", p.Name, ti, m.queue), nil)
				} else {
					m.queue = m.queue[1:]
				}
				m.last = ti
			case t.wire == 1:
				if t.how == "data" {
					m.last = ti
				}
			case t.wire == 2:
				// a second transmission: only the most recent message, after the peer reported
				// it unreadable, marked as resent
				if !(ti == m.last && t.errored && resent && t.resent == 1) {
					fail("transmit.twice", fmt.Sprintf("%s transmitted the text of Send number %d (%s, sent as %s) a second time (marked resent: %v; most recent message: %v; peer reported an error since: %v)",
						p.Name, ti, short(t.text), t.how, resent, ti == m.last, t.errored), map[string]string{"how": t.how, "marked": fmt.Sprint(resent), "last": fmt.Sprint(ti == m.last), "errored": fmt.Sprint(t.errored)})
				}
			default:
				fail("transmit.thrice", fmt.Sprintf("%s transmitted the text of Send number %d %d times", p.Name, ti, t.wire), nil)
			}
			if viol != nil {
				return
			}
		}
		// texts queued while waiting for encryption go out when the session starts
		if p.Rand != nil && p.Rand.Fired > firedSeen[p.Idx] {
			// the injected fault hit this very call: the operation may fail and what it was about to
			// send may be lost or stay queued (never sent twice, never sent in clear - those rules stay);
			// the texts given to Send so far are taken out of the "must go out now" rule
			firedSeen[p.Idx] = p.Rand.Fired
			for _, qi := range m.queue {
				mayLose[p.Idx][qi] = true
			}
			rc.Probe("rand_fault_hit_a_call")
		}
		demanded := 0
		for _, qi := range m.queue {
			if !mayLose[p.Idx][qi] {
				demanded++
			}
		}
		if r.HasEvent("sec", "GoneSecure") && demanded > 0 && skipped == skippedBefore[p.Idx] {
			fail("queued.lost", fmt.Sprintf("%s entered a session with %d text(s) queued under require-encryption, but did not send them (queue %v)", p.Name, len(m.queue), m.queue), nil)
			return
		}
		skippedBefore[p.Idx] = skipped
	})
	kinds := ""
	gen := func() (Step, bool) {
		r := rc.Rng
		fly := [2]int{w.InFlight(0, 1), w.InFlight(1, 0)}
		encA, encB := w.P[0].Conv.IsEncrypted(), w.P[1].Conv.IsEncrypted()
		// query sendA sendB delAB delBA tick end drop errinj refresh crash randfault
		wt := []int{0, 10, 10, 16, 16, 2, 2, 1, 1, 0, 1, 0}
		if rc.Cfg["randfault"] == 1 {
			wt[11] = 2
		}
		if fly[0] == 0 {
			wt[3] = 0
		}
		if fly[1] == 0 {
			wt[4] = 0
		}
		if fly[0]+fly[1] == 0 {
			wt[7] = 0
			if !encA || !encB {
				wt[0] = 8
			} else {
				wt[9] = 2
			}
		}
		switch r.Pick(wt) {
		case 0:
			return Step{K: "query", A: r.Intn(2)}, true
		case 1:
			return Step{K: "send", A: 0, B: 2 + r.Intn(2)}, true
		case 2:
			return Step{K: "send", A: 1, B: 2 + r.Intn(2)}, true
		case 3:
			return Step{K: "deliver", A: 0, B: 1}, true
		case 4:
			return Step{K: "deliver", A: 1, B: 0}, true
		case 5:
			return Step{K: "tick", A: r.Intn(len(tickDur))}, true
		case 6:
			return Step{K: "end", A: r.Intn(2)}, true
		case 7:
			a := r.Intn(2)
			if fly[a] == 0 {
				a = 1 - a
			}
			return Step{K: "drop", A: a, B: 1 - a}, true
		case 8:
			return Step{K: "errinj", A: r.Intn(2)}, true
		case 9:
			return Step{K: "refresh", A: r.Intn(2)}, true
		case 11:
			return Step{K: "randfault", A: r.Intn(2), B: r.Intn(4), C: r.Intn(4)}, true
		default:
			return Step{K: "crash", A: r.Intn(2), B: r.Intn(2)}, true
		}
	}
	for {
		s, ok := rc.NextStep(gen)
		if !ok {
			break
		}
		switch s.K {
		case "deliver", "drop":
			s.C = 0
			w.Exec(s)
		case "query":
			if w.TotalInFlight() > 0 {
				continue
			}
			w.Exec(s)
		case "refresh":
			if w.TotalInFlight() > 0 {
				continue
			}
			w.Tick(tickDur[3])
			p := w.P[s.A%2]
			w.Put(p.Idx, p.Cfg.Peer, p.Query(), true, -1, -1, "query")
		case "errinj":
			to := s.A % 2
			w.Put(1-to, to, []byte("?OTR Error: injected"), false, -1, -1, "error-injection")
		case "randfault":
			// one of the next multi-byte reads of this party's randomness source fails (once)
			q := w.P[s.A%2]
			q.Rand.FailAt, q.Rand.Mode = q.Rand.reads+s.B%4, 1+s.C%4
			w.Fault("rand-read-fails")
		case "crash":
			i := s.A % 2
			w.Crash(i, s.B%2 == 1)
			ms[i] = &c18Model{state: "plaintext", last: -1, visited: ms[i].visited}
		default:
			w.Exec(s)
		}
		kinds += s.K[:2] + fmt.Sprint(s.A%2)
		if viol != nil {
			return viol
		}
	}
	w.Drain(3000)
	if viol != nil {
		return viol
	}
	nt := false
	for _, m := range ms {
		if m.visited["encrypted"] && (m.visited["finished"] || m.visited["plaintext"]) {
			nt = true
		}
	}
	rc.Stats.Nontrivial = nt && accounted >= 4
	rc.Stats.Sig = fmt.Sprintf("p%d/%d %s", rc.Cfg["polA"], rc.Cfg["polB"], kinds)
	rc.ProbeN("transmissions_accounted", accounted)
	rc.ProbeN("data_messages_not_decodable_(skipped)", skipped)
	for _, m := range ms {
		for _, st := range []string{"plaintext", "encrypted", "finished"} {
			if m.visited[st] {
				rc.Probe("state_" + st)
			}
		}
	}
	return nil
}

// mi2text returns the decrypted text of an emitted data message as the shadow read it.
func mi2text(o *Omni, raw []byte) []byte {
	if mi := o.Find(raw); mi != nil {
		return mi.Text
	}
	return nil
}

// skipLost drops from the head of the queue the texts that an injected fault may have lost, up to text ti.
func skipLost(m *c18Model, may map[int]bool, ti int) {
	for len(m.queue) > 0 && m.queue[0] != ti && may[m.queue[0]] {
		m.queue = m.queue[1:]
	}
}
