package sim

import (
	"errors"
	"io"
)

// SimRand is the randomness source handed to a Conversation (the public
// field Conversation.Rand). It is a pure function of its seed, records
// every draw, keeps an alias of the caller's buffer (so that in-place
// wiping by the library can be observed) and can fail the k-th read.
//
// Determinism seam: crypto/dsa.Sign calls randutil.MaybeReadByte, which reads
// ONE byte from the reader with probability 1/2 (by design nondeterministic).
// otr3 itself never asks for a single byte, so 1-byte reads are answered from
// a constant side channel and do not advance the stream.

type Draw struct {
	Idx   int    // index among multi-byte reads of this SimRand
	N     int    // bytes requested
	Val   []byte // copy of the bytes served
	Alias []byte // the caller's buffer itself
	Call  int    // world call sequence number during which it was drawn
}

const (
	FaultNone     = 0
	FaultEOF      = 1 // 0 bytes + io.EOF
	FaultShortEOF = 2 // some bytes + io.EOF
	FaultErr      = 3 // 0 bytes + error
	FaultShortNil = 4 // some bytes, nil error (legal io.Reader behaviour)
)

var errSimRand = errors.New("simrand: injected failure")

type SimRand struct {
	p      *PRNG
	Draws  []Draw
	reads  int
	FailAt int // index of the multi-byte read that fails (-1: never)
	Mode   int
	Fired  int
	Feed   [][]byte // forced answers for coming multi-byte reads (in order), nil entries skipped
	call   *int
	Keep   bool // record draws (off for long runs that do not need them)
}

func NewSimRand(seed uint64, call *int) *SimRand {
	return &SimRand{p: NewPRNG(seed), FailAt: -1, call: call, Keep: true}
}

func (r *SimRand) Reads() int { return r.reads }

func (r *SimRand) Read(b []byte) (int, error) {
	if len(b) == 0 {
		return 0, nil
	}
	if len(b) == 1 {
		b[0] = 0x55
		return 1, nil
	}
	idx := r.reads
	r.reads++
	if idx == r.FailAt && r.Mode != FaultNone {
		r.Fired++
		switch r.Mode {
		case FaultEOF:
			return 0, io.EOF
		case FaultErr:
			return 0, errSimRand
		case FaultShortEOF:
			n := len(b) / 2
			r.p.Fill(b[:n])
			return n, io.EOF
		case FaultShortNil:
			n := len(b) / 2
			if n == 0 {
				n = 1
			}
			r.p.Fill(b[:n])
			// the remainder is requested by io.ReadFull in a further read
			return n, nil
		}
	}
	if len(r.Feed) > 0 {
		f := r.Feed[0]
		r.Feed = r.Feed[1:]
		if f != nil && len(f) == len(b) {
			copy(b, f)
			r.record(idx, b)
			return len(b), nil
		}
	}
	r.p.Fill(b)
	r.record(idx, b)
	return len(b), nil
}

func (r *SimRand) record(idx int, b []byte) {
	if !r.Keep {
		return
	}
	c := -1
	if r.call != nil {
		c = *r.call
	}
	r.Draws = append(r.Draws, Draw{Idx: idx, N: len(b), Val: append([]byte(nil), b...), Alias: b, Call: c})
}
