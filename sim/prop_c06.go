package sim

import (
	"bytes"
	"crypto/sha256"
	"fmt"
	"strings"

	"verifsim/refotr"
)

// C06 – a rejected message leaves the session exactly as it was.
// Twin runs: R1 executes prefix, X (delivery of the message under test to the
// victim), continuation K; R0 executes prefix and K only. If X was rejected by
// the statement's own criterion (no plaintext; nothing to send except an OTR
// error reply), the observable behaviour of both parties over K must be equal.

func init() {
	Register(&PropDef{
		ID: "C06", Title: "a rejected message leaves the session as it was",
		Config: c06Config, Run: c06Run, MaxSteps: 40,
		Rule: "runs = a conversation pair driven to a PRNG-chosen state (plaintext, each AKE stage, fresh session, after rotations, SMP pending, finished, refresh exchange in flight, refresh exchange at a PRNG-chosen depth with a retransmission pending after an error report) receives one rejected message X (mutated/forged/replayed data message, unexpected or damaged AKE message, wrong version, foreign/invalid instance tags, garbage, stray fragment), followed by a PRNG-generated continuation of genuine traffic (messages both ways, rotations, SMP, query inside/outside the 60 s window, End); the same continuation is executed in a twin world without X; " +
			"non-trivial = X was rejected and the continuation made at least 6 API calls; distinct = distinct (state, X class, continuation) signatures",
		Assume: []string{"the optional OTR error reply to X is not delivered to the peer (the statement excludes it)",
			"the victim's randomness source is rewound after X, so any byte difference in the continuation is caused by X; only behavioural differences are reported"},
	})
}

var c06Stages = []string{"plaintext", "ake1", "ake2", "ake3", "fresh", "rotated", "smp-pending", "finished", "ake-refresh", "error-refresh"}

func c06Config(rc *RunCtx) {
	r := rc.Rng
	rc.Cfg["version"] = []int{2, 3, 3, 23}[r.Intn(4)]
	rc.Cfg["stage"] = r.Intn(len(c06Stages))
	rc.Cfg["victim"] = r.Intn(2)
	rc.Cfg["starter"] = r.Intn(2)   // who sends the query: the victim is then responder (0) or initiator (1) of the exchange
	rc.Cfg["depth"] = 1 + r.Intn(4) // how many messages of a refresh exchange are delivered before X (query = 1)
	rc.Cfg["rstarter"] = r.Intn(2)  // who sends the query of the refresh exchange (roles independent of the first exchange)
	pol := polFor(rc.Cfg["version"])
	rc.Parties = []PartyCfg{
		{KeyIdx: 0, Pol: pol, Peer: 1, ErrHandler: r.Bool()},
		{KeyIdx: 1, Pol: pol, Peer: 0, ErrHandler: r.Bool()},
	}
	if r.Chance(1, 4) {
		rc.Parties[0].Frag, rc.Parties[1].Frag = 200, 200
	}
}

var c06XClasses = []string{"data-mutated", "data-replay", "ake-replay", "ake-mutated", "version", "tags", "garbage", "fragment", "data-forged-future"}

type c06World struct {
	w    *World
	o    *Omni
	ask  [2]bool
	obs  []string
	from int // index into obs where the continuation starts
}

func obsLine(w *World, r *CallResult) string {
	var outs []string
	for _, o := range r.Out {
		switch {
		case bytes.HasPrefix(o, []byte("?OTR:")) && len(o) >= 9:
			outs = append(outs, string(o[:9]))
		case bytes.HasPrefix(o, []byte("?OTR|")), bytes.HasPrefix(o, []byte("?OTR,")):
			outs = append(outs, "frag")
		case bytes.HasPrefix(o, []byte("?OTR")):
			outs = append(outs, string(o))
		default:
			outs = append(outs, "text")
		}
	}
	errc := r.Err
	ssid, fp := "-", "-"
	if r.Post.Enc {
		// what a session reports about itself; outside a session the getters have no meaning
		// (including which half of the session id it tells the user to read out)
		ssid, fp = fmt.Sprintf("%x/%d", r.Post.SSID, r.Post.HL), r.Post.FP
	}
	h := sha256.New()
	for _, o := range r.Out {
		_, _ = h.Write(o)
		_, _ = h.Write([]byte{0})
	}
	return fmt.Sprintf("%s.%s plain=%q err=%q ev=%v enc=%v ssid=%s fp=%.8s out=%v panic=%v bytes=%x", w.P[r.Party].Name, r.Kind, r.Plain, errc, r.EventNames(), r.Post.Enc, ssid, fp, outs, r.Panic != "", h.Sum(nil)[:6])
}

// c06Prefix drives the pair to the configured state (deterministically).
func c06Prefix(rc *RunCtx, cw *c06World) {
	w := cw.w
	stage := rc.Cfg["stage"]
	v := rc.Cfg["victim"]
	starter := v
	if rc.Cfg["starter"] == 1 {
		starter = 1 - v
	}
	switch c06Stages[stage] {
	case "plaintext":
		return
	case "ake1", "ake2", "ake3":
		n := map[string]int{"ake1": 2, "ake2": 3, "ake3": 4}[c06Stages[stage]]
		p := w.P[starter]
		w.Put(p.Idx, p.Cfg.Peer, p.Query(), true, -1, -1, "query")
		cnt := 0
		for cnt < n && w.TotalInFlight() > 0 {
			// deliver complete messages: with fragmentation a message is several wires
			for _, l := range [][2]int{{0, 1}, {1, 0}} {
				if w.InFlight(l[0], l[1]) > 0 {
					for w.InFlight(l[0], l[1]) > 0 {
						w.Deliver(w.Take(l[0], l[1], 0))
					}
					cnt++
					break
				}
			}
		}
		return
	}
	w.Handshake(starter)
	switch c06Stages[stage] {
	case "rotated":
		for i := 0; i < 5; i++ {
			p := w.P[(i+v)%2]
			r := p.Send(w.GenText(p, 2, 0))
			w.Enqueue(p, r)
			w.Drain(1000)
		}
	case "smp-pending":
		p := w.P[1-v]
		r := p.SMPStart("", SecretByID(0))
		w.Enqueue(p, r)
		w.Drain(1000)
	case "finished":
		p := w.P[1-v]
		r := p.End()
		w.Enqueue(p, r)
		w.Drain(1000)
	case "ake-refresh", "error-refresh":
		p := w.P[1-v]
		depth := 2 // the query and the DH-Commit only
		if c06Stages[stage] == "error-refresh" {
			// the victim has sent a text, the peer reported it unreadable: a retransmission is
			// pending for the moment the refresh exchange completes
			r := w.P[v].Send(w.GenText(w.P[v], 2, 0))
			w.Enqueue(w.P[v], r)
			w.Drain(1000)
			w.P[v].Receive([]byte("?OTR Error: could not read that"))
			w.Drain(1000)
		}
		if _, has := rc.Cfg["rstarter"]; has {
			p = w.P[rc.Cfg["rstarter"]%2]
			depth = rc.Cfg["depth"]
			if depth == 0 {
				depth = 2
			}
		}
		w.Tick(tickDur[3])
		w.Put(p.Idx, p.Cfg.Peer, p.Query(), true, -1, -1, "query")
		for k := 0; k < depth; k++ {
			for _, l := range [][2]int{{0, 1}, {1, 0}} {
				if w.InFlight(l[0], l[1]) > 0 {
					for w.InFlight(l[0], l[1]) > 0 {
						w.Deliver(w.Take(l[0], l[1], 0))
					}
					break
				}
			}
		}
	}
	// leave one genuine message in flight towards the victim when encrypted
	if w.P[0].Conv.IsEncrypted() && w.P[1].Conv.IsEncrypted() {
		p := w.P[1-v]
		r := p.Send(w.GenText(p, 2, 0))
		w.Enqueue(p, r)
	}
}

// craftX builds the message under test from the attacker's point of view.
func c06CraftX(rc *RunCtx, cw *c06World, s Step) ([]byte, string) {
	w, o := cw.w, cw.o
	v := s.A % 2
	peer := 1 - v
	class := c06XClasses[s.B%len(c06XClasses)]
	var lastData, lastAKE, lastDelivered *Wire
	for _, x := range w.Arch {
		if x.To != v || !x.Genuine {
			continue
		}
		if refotr.IsArmored(x.Bytes) {
			if dataTyped(x.Bytes) {
				lastData = x
				if x.Delivered > 0 {
					lastDelivered = x
				}
			} else if lastAKE == nil || s.D%3 != 0 {
				lastAKE = x
			}
		}
	}
	tag := func() (uint32, uint32) { return w.P[peer].Conv.GetOurInstanceTag(), w.P[v].Conv.GetOurInstanceTag() }
	switch class {
	case "data-mutated":
		if lastData != nil {
			m := MutateData(o, peer, lastData.Bytes, s.C, s.D)
			if m.AuthChanged {
				return m.Bytes, "data-mutated:" + m.Class
			}
		}
	case "data-forged-future":
		if lastData != nil {
			m := MutateData(o, peer, lastData.Bytes, []int{11, 17, 20, 8, 9}[s.C%5], s.D)
			return m.Bytes, "data-forged:" + m.Class
		}
	case "data-replay":
		if lastDelivered != nil {
			return cp(lastDelivered.Bytes), "data-replay"
		}
	case "ake-replay":
		if lastAKE != nil {
			if raw, err := refotr.Dearmor(lastAKE.Bytes); err == nil && len(raw) > 2 && raw[2] != refotr.TypeDHCommit {
				return cp(lastAKE.Bytes), fmt.Sprintf("ake-replay:%02x", raw[2])
			}
		}
	case "ake-mutated":
		if lastAKE != nil {
			if raw, err := refotr.Dearmor(lastAKE.Bytes); err == nil {
				if m, err := refotr.ParseRaw(raw); err == nil {
					mm := mutateAKE(m, lastAKE.Bytes, s.C, s.D)
					return mm.Bytes, fmt.Sprintf("ake-mutated:%02x:%s", raw[2], mm.Class)
				}
			}
		}
	case "version":
		src := lastData
		if src == nil {
			src = lastAKE
		}
		if src != nil {
			if raw, err := refotr.Dearmor(src.Bytes); err == nil && len(raw) > 3 {
				raw[0], raw[1] = 0, []byte{1, 4, 2, 3}[s.C%4]
				if int(raw[1]) == int(o.verOf(v)) {
					raw[1] = 1
				}
				return refotr.Armor(raw), fmt.Sprintf("version:%d", raw[1])
			}
		}
	case "tags":
		src := lastData
		if src == nil {
			src = lastAKE
		}
		if src != nil {
			if raw, err := refotr.Dearmor(src.Bytes); err == nil && len(raw) > 11 && raw[1] == 3 {
				st, rt := tag()
				variants := [][2]uint32{{st + 1, rt}, {st, rt + 1}, {0x50, rt}, {st, 0x50}, {0, rt}, {st + 7, 0}, {1, 1}}
				vi := s.C % len(variants)
				// (an earlier version skipped valid foreign sender tags towards an unbound conversation,
				// reading C15 as allowing such a message to bind it. A message that is REJECTED must not
				// do even that: afterwards the genuine peer instance is ignored for good.)
				vv := variants[vi]
				raw[3], raw[4], raw[5], raw[6] = byte(vv[0]>>24), byte(vv[0]>>16), byte(vv[0]>>8), byte(vv[0])
				raw[7], raw[8], raw[9], raw[10] = byte(vv[1]>>24), byte(vv[1]>>16), byte(vv[1]>>8), byte(vv[1])
				return refotr.Armor(raw), fmt.Sprintf("tags:%d", vi)
			}
		}
	case "fragment":
		st, rt := tag()

		frs := [][]byte{
			[]byte(fmt.Sprintf("?OTR|%08x|%08x,00000,00003,abc,", st, rt)),
			[]byte(fmt.Sprintf("?OTR|%08x|%08x,00004,00003,abc,", st, rt)),
			[]byte(fmt.Sprintf("?OTR|%08x|%08x,00002,00003,abc,", st+1, rt)),
			[]byte(fmt.Sprintf("?OTR|%08x|%08x,00002,00003,abc,", st, rt+1)),
			[]byte("?OTR,00000,00002,abc,"),
			[]byte("?OTR,00003,00002,abc,"),
			[]byte("?OTR,00002,00003,abc,"),
			[]byte(fmt.Sprintf("?OTR|%08x|%08x,00002,00003,abc,", 0x50, rt)),
			[]byte("?OTR|zz,"),
		}
		return frs[s.C%len(frs)], fmt.Sprintf("fragment:%d", s.C%len(frs))
	}
	gs := [][]byte{[]byte("?OTR:AAMD."), []byte("?OTR:!!!."), []byte("?OTRx"), []byte("?OTR:AAID"), []byte("?OTR:AAMDAAAA."), []byte("?OTR:AAMK."), []byte("?OTR:AAIR.")}
	return gs[s.C%len(gs)], fmt.Sprintf("garbage:%d", s.C%len(gs))
}

func (o *Omni) verOf(i int) uint16 {
	if o.Sh[i].Peer != nil {
		return o.Sh[i].Peer.Version
	}
	return 0
}

func c06Run(rc *RunCtx) *Violation {
	mk := func() *c06World {
		w := rc.NewWorld(rc.Parties)
		cw := &c06World{w: w, o: NewOmni(w)}
		w.Observers = append(w.Observers, func(p *Party, r *CallResult) {
			if r.HasEvent("smp", "AskForSecret") || r.HasEvent("smp", "AskForAnswer") {
				cw.ask[p.Idx] = true
			}
			if r.Kind == "smpanswer" || r.HasEvent("smp", "Abort") {
				cw.ask[p.Idx] = false
			}
			cw.obs = append(cw.obs, obsLine(w, r))
		})
		return cw
	}
	// ---- R1: with X
	c1 := mk()
	c06Prefix(rc, c1)
	w := c1.w
	xClass, xState := "", ""
	rejected := false
	gen := func() (Step, bool) {
		r := rc.Rng
		if len(rc.Steps) == 0 {
			// choose among the classes that exist in this state (so that the fallback "garbage" does not dominate)
			v := rc.Cfg["victim"] % 2
			hasData, hasAKE, hasDelivered, v3 := false, false, false, false
			for _, x := range w.Arch {
				if x.To != v || !x.Genuine || !refotr.IsArmored(x.Bytes) {
					continue
				}
				if dataTyped(x.Bytes) {
					hasData = true
					hasDelivered = hasDelivered || x.Delivered > 0
				} else {
					hasAKE = true
				}
				if raw, err := refotr.Dearmor(x.Bytes); err == nil && len(raw) > 1 && raw[1] == 3 {
					v3 = true
				}
			}
			// data-mutated data-replay ake-replay ake-mutated version tags garbage fragment data-forged-future
			wt := []int{0, 0, 0, 0, 0, 0, 2, 3, 0}
			if hasData {
				wt[0], wt[8], wt[4] = 8, 5, 2
			}
			if hasDelivered {
				wt[1] = 3
			}
			if hasAKE {
				wt[2], wt[3], wt[4] = 3, 10, 2
			}
			if v3 && (hasData || hasAKE) {
				wt[5] = 4
			}
			return Step{K: "x", A: v, B: r.Pick(wt), C: r.Intn(1 << 10), D: r.Intn(1 << 16), X: true}, true
		}
		if len(rc.Steps) > 14+r.Intn(20) {
			return Step{}, false
		}
		fly := [2]int{w.InFlight(0, 1), w.InFlight(1, 0)}
		enc := w.P[0].Conv.IsEncrypted() && w.P[1].Conv.IsEncrypted()
		// sendA sendB delAB delBA tick query smpstart smpanswer end
		wt := []int{6, 6, 14, 14, 2, 2, 0, 0, 1}
		if fly[0] == 0 {
			wt[2] = 0
		}
		if fly[1] == 0 {
			wt[3] = 0
		}
		if enc {
			wt[6] = 2
		}
		if c1.ask[0] || c1.ask[1] {
			wt[7] = 8
		}
		switch r.Pick(wt) {
		case 0:
			return Step{K: "send", A: 0, B: 2}, true
		case 1:
			return Step{K: "send", A: 1, B: 2}, true
		case 2:
			return Step{K: "deliver", A: 0, B: 1}, true
		case 3:
			return Step{K: "deliver", A: 1, B: 0}, true
		case 4:
			return Step{K: "tick", A: []int{1, 2, 3, 4}[r.Intn(4)]}, true
		case 5:
			return Step{K: "query", A: r.Intn(2)}, true
		case 6:
			return Step{K: "smpstart", A: r.Intn(2), B: r.Intn(2), C: 0}, true
		case 7:
			who := 0
			if c1.ask[1] && (!c1.ask[0] || r.Bool()) {
				who = 1
			}
			return Step{K: "smpanswer", A: who, C: 0}, true
		default:
			return Step{K: "end", A: r.Intn(2)}, true
		}
	}
	execK := func(cw *c06World, s Step) {
		if s.K == "deliver" {
			s.C = 0
		}
		cw.w.Exec(s)
	}
	var steps []Step
	for {
		s, ok := rc.NextStep(gen)
		if !ok {
			break
		}
		steps = append(steps, s)
		if s.K == "x" {
			if xClass != "" {
				continue // one X per run
			}
			vi := s.A % 2
			p := w.P[vi]
			msg, cls := c06CraftX(rc, c1, s)
			xClass = cls
			xState = fmt.Sprintf("%s enc=%v", c06Stages[rc.Cfg["stage"]%len(c06Stages)], p.Conv.IsEncrypted())
			// save the victim's randomness position
			savedP, savedReads, savedDraws := *p.Rand.p, p.Rand.reads, len(p.Rand.Draws)
			c1.o.Off[0], c1.o.Off[1] = true, true
			encBefore := p.Conv.IsEncrypted()
			before := p.post()
			w.Logf("X class=%s to %s: %s", cls, p.Name, short(msg))
			r := p.Receive(msg) // outputs (an optional error reply) are not delivered
			rejected = r.Plain == nil && r.Panic == "" && len(actedEvents(r)) == 0 && r.Post.Enc == p.Conv.IsEncrypted() && encBefore == r.Post.Enc
			for _, o := range r.Out {
				if !bytes.HasPrefix(o, []byte("?OTR Error")) {
					rejected = false
				}
			}
			*p.Rand.p, p.Rand.reads, p.Rand.Draws = savedP, savedReads, p.Rand.Draws[:savedDraws]
			c1.from = len(c1.obs)
			if rejected && before.Enc && (r.Post.SSID != before.SSID || r.Post.HL != before.HL || r.Post.FP != before.FP) {
				// what the session tells the user about itself, sampled right before and right after X
				return rc.Viol("twin.behaviour", fmt.Sprintf("the rejected message X (%s, delivered in state %s) changed what the running session reports about itself: session id %x/half %d/peer %.8s before, %x/half %d/peer %.8s after",
					cls, xState, before.SSID, before.HL, before.FP, r.Post.SSID, r.Post.HL, r.Post.FP), map[string]string{"x": strings.SplitN(cls, ":", 2)[0], "diff": "reported-state", "uncommitted": "false"})
			}
			w.Fault("x:" + strings.SplitN(cls, ":", 2)[0])
			if !rejected {
				rc.Probe("x_not_rejected")
			}
			continue
		}
		if xClass == "" {
			c1.from = len(c1.obs)
		}
		execK(c1, s)
	}
	c1.w.Drain(3000)
	if xClass == "" || !rejected {
		rc.Stats.Sig = "no-x"
		return nil
	}
	// ---- R0: the twin without X
	c0 := mk()
	c06Prefix(rc, c0)
	c0.from = len(c0.obs)
	for _, s := range steps {
		if s.X || s.K == "x" {
			continue
		}
		execK(c0, s)
	}
	c0.w.Drain(3000)
	k1, k0 := c1.obs[c1.from:], c0.obs[c0.from:]
	shape := func(what string) map[string]string {
		fam := strings.SplitN(xClass, ":", 2)[0]
		// "uncommitted": the victim allows both protocol versions and had not seen any
		// OTR message before X (so X is the message that decides its version)
		unc := "false"
		if c06Stages[rc.Cfg["stage"]%len(c06Stages)] == "plaintext" && rc.Parties[rc.Cfg["victim"]%2].Pol&(PolV2|PolV3) == PolV2|PolV3 {
			unc = "true"
		}
		return map[string]string{"x": fam, "diff": what, "uncommitted": unc}
	}
	n := len(k0)
	if len(k1) < n {
		n = len(k1)
	}
	for i := 0; i < n; i++ {
		if k0[i] != k1[i] {
			return rc.Viol("twin.behaviour", fmt.Sprintf("after the rejected message X (%s, delivered in state %s) the continuation behaves differently from the twin run without X, first at observation %d:\n  without X: %s\n  with X:    %s",
				xClass, xState, i, k0[i], k1[i]), shape(diffKind(k0[i], k1[i])))
		}
	}
	if len(k0) != len(k1) {
		return rc.Viol("twin.behaviour", fmt.Sprintf("after the rejected message X (%s, state %s) the continuation makes %d API calls instead of %d", xClass, xState, len(k1), len(k0)), shape("length"))
	}
	if c0.w.Digest() != c1.w.Digest() {
		rc.Probe("byte_divergence_only")
	}
	rc.Stats.Nontrivial = len(k0) >= 6
	rc.Stats.Sig = fmt.Sprintf("v%d %s %s %s", rc.Cfg["version"], xState, xClass, stepKinds(steps))
	rc.Probe("x_rejected_" + strings.SplitN(xClass, ":", 2)[0])
	rc.Probe("state_" + c06Stages[rc.Cfg["stage"]%len(c06Stages)])
	return nil
}

func stepKinds(ss []Step) string {
	s := ""
	for _, x := range ss {
		k := x.K
		if len(k) > 2 {
			k = k[:2]
		}
		s += k + fmt.Sprint(x.A%2)
	}
	return s
}

// diffKind names the first field in which two observation lines differ.
func diffKind(a, b string) string {
	fa, fb := strings.Split(a, " "), strings.Split(b, " ")
	for i := 0; i < len(fa) && i < len(fb); i++ {
		if fa[i] != fb[i] {
			k := fa[i]
			if j := strings.IndexByte(k, '='); j >= 0 {
				k = k[:j]
			}
			return k
		}
	}
	return "other"
}
