package sim

import (
	"fmt"
	"os"
	"sort"

	"verifsim/refotr"
)

// C19 – a conversation's retained state is bounded, whatever the traffic.
// Long runs; at checkpoints n, 2n, 4n, ... the bytes reachable from each
// conversation (object-graph walker, slices to capacity) and the size of the
// messages it emits are compared.

const c19Slack = 2048 // bytes of growth per doubling tolerated (big.Int length jitter, amortised slice growth)

var c19Patterns = []string{"ping-pong", "one-directional", "bursts", "forged-flood", "refresh", "smp", "errors", "garbage-flood", "one-way-delay", "error-refresh-idle", "forged-interleaved", "forged-run", "silent-rekey"}

func init() {
	Register(&PropDef{
		ID: "C19", Title: "retained state is bounded",
		Config: c19Config, Run: c19Run, MaxSteps: 1, QuickS: 25, ThoroughS: 900,
		Rule: "runs = one traffic pattern (ping-pong, one-directional stream, alternating bursts, floods of forged data messages with random key ids/counters/MACs, garbage floods, repeated refresh AKEs, repeated SMP runs, error messages) x version x fragment size, run to n = 64, 128, 256, 512 messages (thorough: up to 4096); at each checkpoint the pair is brought to a canonical quiescent point and the bytes reachable from each conversation are measured with the object-graph walker; verdict: growth above 2 KiB at EVERY doubling (so a one-off capacity step cannot trigger it) with increments that themselves grow by at least 1.4x per doubling (so a bounded, fluctuating quantity cannot trigger it), for total size or for the longest emitted message of a fixed-length text; " +
			"non-trivial = all checkpoints were reached; distinct = distinct (pattern, version, fragment size, seed) runs",
		Assume: []string{"reachable bytes are measured from outside the package (reflect+unsafe), harness-owned objects cut out", "texts queued before a session and a fragment stream in progress are excluded by construction (checkpoints are quiescent)"},
	})
}

func c19Config(rc *RunCtx) {
	r := rc.Rng
	rc.Cfg["version"] = []int{2, 3, 3}[r.Intn(3)]
	rc.Cfg["pattern"] = r.Intn(len(c19Patterns))
	if v := os.Getenv("VERIF_C19_PATTERN"); v != "" { // debugging aid: force one traffic pattern
		for i, n := range c19Patterns {
			if n == v {
				rc.Cfg["pattern"] = i
			}
		}
	}
	rc.Cfg["n"] = 512
	if rc.Thorough() {
		rc.Cfg["n"] = []int{512, 1024, 2048, 4096}[r.Intn(4)]
	}
	pol := polFor(rc.Cfg["version"])
	f := 0
	if r.Chance(1, 4) {
		f = 300
	}
	rc.Parties = []PartyCfg{{KeyIdx: 0, Pol: pol, Peer: 1, Frag: f, ErrHandler: r.Bool()}, {KeyIdx: 1, Pol: pol, Peer: 0, Frag: f, ErrHandler: r.Bool()}}
	if c19Patterns[rc.Cfg["pattern"]%len(c19Patterns)] == "silent-rekey" {
		rc.Parties[0].Pol |= PolWSStart
	}
	if c19Patterns[rc.Cfg["pattern"]%len(c19Patterns)] == "forged-run" {
		// error replies exist only with an error message handler; a run of rejected messages is where they could pile up
		rc.Parties[0].ErrHandler, rc.Parties[1].ErrHandler = true, true
	}
}

func c19Run(rc *RunCtx) *Violation {
	w := rc.NewWorld(rc.Parties)
	a, b := w.P[0], w.P[1]
	a.Rand.Keep, b.Rand.Keep = false, false // long runs: no need to record draws
	if !w.Handshake(0) {
		return rc.Viol("setup.handshake", "AKE did not complete", nil)
	}
	pat := c19Patterns[rc.Cfg["pattern"]%len(c19Patterns)]
	pr := Fork(rc.Seed, "c19", 0)
	maxMsg := [2]int{}
	w.Observers = append(w.Observers, func(p *Party, r *CallResult) {
		n := 0
		for _, o := range r.Out {
			if dataTyped(o) || r.Kind == "send" {
				n += len(o)
			}
		}
		if r.Kind == "smpstart" || r.Kind == "smpanswer" || r.HasEvent("smp", "InProgress") || r.HasEvent("smp", "AskForSecret") || r.HasEvent("smp", "Success") {
			return // SMP payloads are long but of constant size; not the messages compared here
		}
		if n > maxMsg[p.Idx] {
			maxMsg[p.Idx] = n
		}
	})
	send := func(p *Party) {
		r := p.Send(w.GenText(p, 2, 0)) // fixed-length text class
		w.Enqueue(p, r)
	}
	forged := func(to int) {
		// a data message for random key ids / counter with a random MAC, and plain garbage
		var last []byte
		for i := len(w.Arch) - 1; i >= 0; i-- {
			if x := w.Arch[i]; x.To == to && x.Genuine && dataTyped(x.Bytes) {
				last = x.Bytes
				break
			}
		}
		if last == nil {
			return
		}
		if d, _, ok := parseDataLenient(last); ok {
			d.SenderKeyID = uint32(1 + pr.Intn(1<<20))
			d.RecipientKeyID = uint32(1 + pr.Intn(1<<20))
			if pr.Chance(1, 2) { // keep the real key ids, forge the rest
				dd, _, _ := parseDataLenient(last)
				d.SenderKeyID, d.RecipientKeyID = dd.SenderKeyID, dd.RecipientKeyID
			}
			copy(d.Ctr[:], pr.Bytes(8))
			d.MAC = pr.Bytes(20)
			w.P[to].Receive(refotr.Armor(d.Raw()))
			w.Fault("forged-data")
		}
	}
	quiesce := func() {
		w.Drain(100000)
		if pat == "error-refresh-idle" {
			return
		}
		for i := 0; i < 2; i++ {
			send(a)
			w.Drain(100000)
			send(b)
			w.Drain(100000)
		}
	}
	type sample struct {
		n     int
		total [2]int
		byp   [2]map[string]int
		msg   [2]int
		pre   [2]int
	}
	var samples []sample
	N := rc.Cfg["n"]
	next := N / 8
	for i := 1; i <= N; i++ {
		switch pat {
		case "ping-pong":
			send(w.P[i%2])
			w.Drain(100000)
		case "one-directional":
			send(a)
			if i%4 == 0 {
				w.Drain(100000)
			}
		case "bursts":
			send(w.P[(i/8)%2])
			if i%8 == 0 {
				w.Drain(100000)
			}
		case "forged-flood":
			send(w.P[i%2])
			w.Drain(100000)
			for k := 0; k < 3; k++ {
				forged(k % 2)
			}
		case "garbage-flood":
			send(w.P[i%2])
			w.Drain(100000)
			g := append([]byte("?OTR:"), pr.Bytes(40)...)
			w.P[i%2].Receive(g)
			w.P[i%2].Receive([]byte(fmt.Sprintf("?OTR|%08x|%08x,00002,00003,%x,", 0x100+pr.Intn(1000), 0x100, pr.Bytes(8))))
			w.Fault("garbage")
		case "refresh":
			send(w.P[i%2])
			w.Drain(100000)
			if i%16 == 0 {
				w.Tick(tickDur[3])
				w.Put(0, 1, a.Query(), true, -1, -1, "query")
				w.Drain(100000)
				w.Fault("refresh-ake")
			}
		case "smp":
			send(w.P[i%2])
			w.Drain(100000)
			if i%16 == 0 {
				r := a.SMPStart("", []byte("s"))
				w.Enqueue(a, r)
				w.Drain(100000)
				r = b.SMPAnswer([]byte("s"))
				w.Enqueue(b, r)
				w.Drain(100000)
				w.Fault("smp-run")
			}
		case "one-way-delay":
			// both keep sending; B's messages reach A at once, A's only at the checkpoints
			send(a)
			send(b)
			for w.InFlight(1, 0) > 0 {
				w.Deliver(w.Take(1, 0, 0))
			}
		case "error-refresh-idle":
			// the user wrote once; from then on the peer keeps reporting errors and re-keying
			if i == 1 {
				send(a)
				w.Drain(100000)
			}
			a.Receive([]byte("?OTR Error: could not read that"))
			w.Tick(tickDur[3])
			w.Put(1, 0, b.Query(), true, -1, -1, "query")
			w.Drain(100000)
			w.Fault("error+refresh")
		case "forged-interleaved":
			// forged messages naming the other live key pair between own sends, no rotation in between
			send(a)
			forged(0)
			if i%8 == 0 {
				w.Drain(100000)
			}
		case "silent-rekey":
			// B only listens; A writes one text per session and is made to re-key at once, again and
			// again, without the 60 s query window in the way: a whitespace-tagged clear text (anybody
			// can inject one) makes A, which has the whitespace-start policy, send a DH-Commit
			send(a)
			w.Drain(100000)
			tagged := append([]byte("rekey"), refotr.WhitespaceTag(rc.Cfg["version"] != 3, rc.Cfg["version"] != 2)...)
			r := a.Receive(tagged)
			w.Enqueue(a, r)
			w.Drain(100000)
			w.Fault("rekey-by-whitespace-tag")
		case "forged-run":
			// nothing but rejected messages between two checkpoints: no successful call in between
			if i == 1 {
				send(a) // the forgeries are modelled on a genuine message
				w.Drain(100000)
			}
			forged(1)
		case "errors":
			send(w.P[i%2])
			w.Drain(100000)
			if i%4 == 0 {
				w.P[i%2].Receive([]byte("?OTR Error: nothing"))
				w.Fault("error-message")
			}
		}
		if w.Panics > 0 {
			return rc.Viol("panic", "a call panicked during the long run", nil)
		}
		if i == next {
			var pre [2]int
			if pat == "forged-run" {
				// what the flood itself left behind, before any successful call
				for k := 0; k < 2; k++ {
					pre[k] = WalkGraph(w.P[k].Conv).Total
				}
			}
			quiesce()
			s := sample{n: i, msg: maxMsg, pre: pre}
			for k := 0; k < 2; k++ {
				g := WalkGraph(w.P[k].Conv)
				s.total[k] = g.Total
				s.byp[k] = g.ByPath
			}
			samples = append(samples, s)
			maxMsg = [2]int{}
			next *= 2
		}
	}
	if !a.Conv.IsEncrypted() || !b.Conv.IsEncrypted() {
		return rc.Viol("session.lost", "the session did not survive the traffic pattern "+pat, nil)
	}
	// verdict: growth above slack at every doubling (from the second sample on)
	for k := 0; k < 2; k++ {
		growAll, msgAll := len(samples) >= 4, len(samples) >= 4
		preAll := len(samples) >= 4 && pat == "forged-run"
		series, mseries, pseries := "", "", ""
		for i := range samples {
			series += fmt.Sprintf(" n=%d:%d", samples[i].n, samples[i].total[k])
			mseries += fmt.Sprintf(" n=%d:%d", samples[i].n, samples[i].msg[k])
			pseries += fmt.Sprintf(" n=%d:%d", samples[i].n, samples[i].pre[k])
			if i <= 1 {
				// the first two segments (1..n/8 and n/8+1..n/4) are equally long; what accumulates
				// within a segment shows from the third sample on
				continue
			}
			if samples[i].total[k]-samples[i-1].total[k] <= c19Slack {
				growAll = false
			}
			if samples[i].msg[k]-samples[i-1].msg[k] <= 64 {
				msgAll = false
			}
			if samples[i].pre[k]-samples[i-1].pre[k] <= c19Slack {
				preAll = false
			}
		}
		// Growth that goes on for ever is (at least) proportional to the traffic: each segment is twice
		// as long as the one before, so is its increment. A quantity that is bounded but fluctuates
		// (a maximum taken over a longer segment is a little larger) shows increments that do not
		// grow: the thorough tier met one (at most 16 MAC keys wait to be revealed; the largest
		// message seen crept from 874 to 1094 bytes over 4096 messages) - a false alarm of the
		// plain "larger at every doubling" rule.
		if nn := len(samples); nn >= 4 {
			prop := func(a, b, c int) bool { return float64(c-b) >= 1.4*float64(b-a) }
			growAll = growAll && prop(samples[nn-3].total[k], samples[nn-2].total[k], samples[nn-1].total[k])
			msgAll = msgAll && prop(samples[nn-3].msg[k], samples[nn-2].msg[k], samples[nn-1].msg[k])
			preAll = preAll && prop(samples[nn-3].pre[k], samples[nn-2].pre[k], samples[nn-1].pre[k])
		}
		if preAll {
			return rc.Viol("state.growth", fmt.Sprintf("%s: bytes reachable from the conversation right after a run of rejected messages grow with the length of the run:%s", w.P[k].Name, pseries),
				map[string]string{"where": "after-flood", "pattern": pat})
		}
		if os.Getenv("VERIF_VERBOSE") != "" {
			fmt.Printf("C19DBG %s %s size:%s | msg:%s | pre:%s\n", pat, w.P[k].Name, series, mseries, pseries)
		}
		if growAll {
			// which part of the conversation grows
			first, last := samples[0].byp[k], samples[len(samples)-1].byp[k]
			type kv struct {
				k string
				d int
			}
			var ds []kv
			for p, v := range last {
				ds = append(ds, kv{p, v - first[p]})
			}
			sort.Slice(ds, func(i, j int) bool {
				if ds[i].d != ds[j].d {
					return ds[i].d > ds[j].d
				}
				return ds[i].k < ds[j].k
			})
			top := ""
			for i := 0; i < len(ds) && i < 3; i++ {
				top += fmt.Sprintf(" %s(+%d)", ds[i].k, ds[i].d)
			}
			return rc.Viol("state.growth", fmt.Sprintf("%s: bytes reachable from the conversation grow at every doubling under pattern %s:%s; largest growth:%s", w.P[k].Name, pat, series, top),
				map[string]string{"where": ds[0].k, "pattern": pat})
		}
		if msgAll {
			return rc.Viol("message.growth", fmt.Sprintf("%s: the longest message emitted for a fixed-length text grows at every doubling under pattern %s:%s", w.P[k].Name, pat, mseries), map[string]string{"pattern": pat})
		}
	}
	rc.Stats.Nontrivial = len(samples) >= 4
	rc.Stats.Sig = fmt.Sprintf("%s v%d f%d n%d %d", pat, rc.Cfg["version"], rc.Parties[0].Frag, N, rc.Seed%1000)
	rc.Probe("pattern_" + pat)
	rc.ProbeN("messages", N)
	return nil
}
