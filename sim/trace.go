package sim

import (
	"encoding/json"
	"fmt"
	"hash/fnv"
	"os"
	"sort"
	"testing"
	"time"
)

// Step is one abstract scheduler/fault decision. Integer arguments are
// interpreted relative to the state at execution time (index modulo the
// number of in-flight messages, ...) so that any sub-list of a valid trace is
// again a valid trace: the precondition for shrinking.
type Step struct {
	K string `json:"k"`
	A int    `json:"a,omitempty"`
	B int    `json:"b,omitempty"`
	C int    `json:"c,omitempty"`
	D int    `json:"d,omitempty"`
	X bool   `json:"x,omitempty"` // executed only in the run that contains the message under test (twin runs)
}

func (s Step) String() string {
	x := ""
	if s.X {
		x = "!"
	}
	return fmt.Sprintf("%s%s(%d,%d,%d,%d)", x, s.K, s.A, s.B, s.C, s.D)
}

type Violation struct {
	Prop   string            `json:"property"`
	Rule   string            `json:"rule"`
	Detail string            `json:"detail"`
	Shape  map[string]string `json:"shape,omitempty"`
	Step   int               `json:"step"`
	Known  string            `json:"known,omitempty"` // text of the known finding it matches
}

func (v *Violation) ShapeKey() string {
	if v == nil {
		return ""
	}
	ks := make([]string, 0, len(v.Shape))
	for k := range v.Shape {
		ks = append(ks, k)
	}
	sort.Strings(ks)
	s := v.Rule
	for _, k := range ks {
		s += "|" + k + "=" + v.Shape[k]
	}
	return s
}

// Trace is the replay file: property, seed, configuration, steps, and what was
// violated. Replaying it is a pure function of its contents and the code.
type Trace struct {
	Prop    string         `json:"property"`
	Seed    uint64         `json:"seed"`
	Tier    string         `json:"tier"`
	Mode    string         `json:"mode"` // "steps" (execute Steps) or "generate" (regenerate from seed; used for fatal crashes)
	J       int            `json:"j,omitempty"`
	Cfg     map[string]int `json:"cfg"`
	Parties []PartyCfg     `json:"parties"`
	Steps   []Step         `json:"steps"`
	Viol    *Violation     `json:"violation,omitempty"`
	Digest  string         `json:"digest,omitempty"`
	OrigLen int            `json:"original_steps,omitempty"`
	Log     []string       `json:"log,omitempty"`
	Faults  map[string]int `json:"faults,omitempty"`
}

type RunStats struct {
	Sig        string
	Nontrivial bool
	Probes     map[string]int
	Faults     map[string]int
	SimTime    time.Duration
	Steps      int
	Calls      int
	IncPanics  int
	Digest     string
	Log        []string
}

// RunCtx is handed to a property's Run function.
type RunCtx struct {
	Prop    *PropDef
	Seed    uint64
	Tier    string
	J       int   // index of the run in the batch (exploring only; enumerating properties map it to a case)
	Rng     *PRNG // scheduling PRNG; nil when replaying
	Replay  bool
	Cfg     map[string]int
	Parties []PartyCfg
	Steps   []Step
	pos     int
	Max     int
	Stats   RunStats
	KeepLog bool
	journal *os.File
	worlds  []*World
}

func (rc *RunCtx) Thorough() bool { return rc.Tier == "thorough" }

// NextStep yields the next step: generated (and recorded) when exploring,
// taken from the recorded list when replaying. The generator is never
// consulted during replay, so replay does not depend on the PRNG.
func (rc *RunCtx) NextStep(gen func() (Step, bool)) (Step, bool) {
	if rc.Replay {
		if rc.pos >= len(rc.Steps) {
			return Step{}, false
		}
		s := rc.Steps[rc.pos]
		rc.pos++
		return s, true
	}
	if rc.Max > 0 && len(rc.Steps) >= rc.Max {
		return Step{}, false
	}
	s, ok := gen()
	if !ok {
		return Step{}, false
	}
	rc.Steps = append(rc.Steps, s)
	rc.pos = len(rc.Steps)
	if rc.journal != nil {
		b, _ := json.Marshal(s)
		_, _ = rc.journal.Write(append(b, '\n'))
	}
	return s, true
}

func (rc *RunCtx) StepIdx() int { return rc.pos - 1 }

func (rc *RunCtx) Probe(name string) {
	if rc.Stats.Probes == nil {
		rc.Stats.Probes = map[string]int{}
	}
	rc.Stats.Probes[name]++
}

func (rc *RunCtx) ProbeN(name string, n int) {
	if rc.Stats.Probes == nil {
		rc.Stats.Probes = map[string]int{}
	}
	rc.Stats.Probes[name] += n
}

// NewWorld creates a world registered with the run (for statistics).
func (rc *RunCtx) NewWorld(cfgs []PartyCfg) *World {
	w := NewWorld(rc.Seed, cfgs)
	w.LogKeep = rc.KeepLog
	rc.worlds = append(rc.worlds, w)
	return w
}

func (rc *RunCtx) Viol(rule, detail string, shape map[string]string) *Violation {
	return &Violation{Prop: rc.Prop.ID, Rule: rule, Detail: detail, Shape: shape, Step: rc.StepIdx()}
}

func (rc *RunCtx) collect() {
	rc.Stats.Faults = map[string]int{}
	dig := fnv.New64a()
	for _, w := range rc.worlds {
		for k, v := range w.Faults {
			rc.Stats.Faults[k] += v
		}
		rc.Stats.SimTime += w.SimTime
		rc.Stats.Calls += w.Seq
		rc.Stats.IncPanics += w.Panics
		_, _ = dig.Write([]byte(w.Digest()))
		if rc.KeepLog {
			rc.Stats.Log = append(rc.Stats.Log, w.LogLines...)
			rc.Stats.Log = append(rc.Stats.Log, "----")
		}
	}
	rc.Stats.Steps = len(rc.Steps)
	rc.Stats.Digest = fmt.Sprintf("%016x", dig.Sum64())
}

// PropDef describes how one property is explored and decided.
type PropDef struct {
	ID           string
	Title        string
	Config       func(rc *RunCtx)            // exploring only: choose Cfg and Parties from rc.Rng
	Run          func(rc *RunCtx) *Violation // runs inside a synctest bubble
	OwnsCrash    bool                        // a fatal crash of the library is a violation of this property
	Rule         string                      // how cases are generated, what makes one non-trivial/distinct
	Assume       []string
	MaxSteps     int
	QuickS       int // default wall budget (s)
	ThoroughS    int
	Fixed        func(tier string) int // >0: number of runs is fixed (enumeration), index = run number
	Level        string                // evidence level (default exploration)
	NondetReplay func(rc *RunCtx) bool // the run's schedule is not controlled by the simulator (free-running threads): report by seed, do not shrink
}

var Props = map[string]*PropDef{}

func Register(p *PropDef) { Props[p.ID] = p }

// runInBubble executes one run of a property inside a fresh synctest bubble.
func runInBubble(t *testing.T, rc *RunCtx) (v *Violation) {
	done := false
	func() {
		defer func() {
			if x := recover(); x != nil {
				// synctest panics (deadlock at end of bubble) are harness errors
				v = &Violation{Prop: rc.Prop.ID, Rule: "harness.panic", Detail: fmt.Sprint(x)}
			}
		}()
		bubble(t, func(t *testing.T) {
			defer func() {
				if x := recover(); x != nil {
					v = &Violation{Prop: rc.Prop.ID, Rule: "harness.panic", Detail: fmt.Sprint(x) + "\n" + stackString()}
				}
			}()
			v = rc.Prop.Run(rc)
			done = true
		})
	}()
	_ = done
	rc.collect()
	return v
}

// Explore performs one generated run for (prop, seed).
func Explore(t *testing.T, p *PropDef, seed uint64, tier string, keepLog bool, journal *os.File, j int) (*RunCtx, *Violation) {
	rc := &RunCtx{Prop: p, Seed: seed, Tier: tier, J: j, Rng: Fork(seed, "sched", 0), Cfg: map[string]int{}, Max: p.MaxSteps, KeepLog: keepLog, journal: journal}
	if p.Config != nil {
		p.Config(rc)
	}
	if journal != nil {
		b, _ := json.Marshal(map[string]interface{}{"cfg": rc.Cfg, "parties": rc.Parties, "seed": seed})
		_, _ = journal.Write(append(b, '\n'))
	}
	v := runInBubble(t, rc)
	return rc, v
}

// ReplayTrace executes a recorded trace.
func ReplayTrace(t *testing.T, p *PropDef, tr *Trace, keepLog bool) (*RunCtx, *Violation) {
	if tr.Mode == "generate" {
		var j *os.File
		if path := os.Getenv("VERIF_JOURNAL"); path != "" {
			// steps are written before they are executed, so a fatal crash or hang can be attributed
			j, _ = os.Create(path)
		}
		return Explore(t, p, tr.Seed, tr.Tier, keepLog, j, tr.J)
	}
	cfg := map[string]int{}
	for k, v := range tr.Cfg {
		cfg[k] = v
	}
	rc := &RunCtx{Prop: p, Seed: tr.Seed, Tier: tr.Tier, Replay: true, Cfg: cfg,
		Parties: append([]PartyCfg{}, tr.Parties...), Steps: append([]Step{}, tr.Steps...), KeepLog: keepLog}
	v := runInBubble(t, rc)
	return rc, v
}

func (rc *RunCtx) ToTrace(v *Violation) *Trace {
	return &Trace{Prop: rc.Prop.ID, Seed: rc.Seed, Tier: rc.Tier, Mode: "steps", Cfg: rc.Cfg, Parties: rc.Parties,
		Steps: append([]Step{}, rc.Steps...), Viol: v, Digest: rc.Stats.Digest, Faults: rc.Stats.Faults}
}

// Shrink minimises a failing trace by delta debugging over the step list and
// then simplifying step arguments, accepting a candidate only if the same rule
// with the same shape fires.
func Shrink(t *testing.T, p *PropDef, tr *Trace, budget time.Duration) *Trace {
	want := tr.Viol.ShapeKey()
	deadline := time.Now().Add(budget)
	best := tr
	try := func(steps []Step) bool {
		if time.Now().After(deadline) {
			return false
		}
		c := *best
		c.Steps = steps
		rc, v := ReplayTrace(t, p, &c, false)
		if v != nil && v.ShapeKey() == want {
			n := rc.ToTrace(v)
			n.OrigLen = tr.OrigLen
			best = n
			return true
		}
		return false
	}
	if best.OrigLen == 0 {
		best.OrigLen = len(best.Steps)
	}
	tr.OrigLen = best.OrigLen
	// truncate after the violating step
	if tr.Viol.Step >= 0 && tr.Viol.Step+1 < len(best.Steps) {
		try(append([]Step{}, best.Steps[:tr.Viol.Step+1]...))
	}
	// ddmin
	n := 2
	for len(best.Steps) >= 2 && time.Now().Before(deadline) {
		steps := best.Steps
		chunk := (len(steps) + n - 1) / n
		reduced := false
		for i := 0; i < len(steps); i += chunk {
			j := i + chunk
			if j > len(steps) {
				j = len(steps)
			}
			cand := append(append([]Step{}, steps[:i]...), steps[j:]...)
			if try(cand) {
				reduced = true
				if n > 2 {
					n--
				}
				break
			}
		}
		if !reduced {
			if chunk <= 1 {
				break
			}
			n *= 2
			if n > len(steps) {
				n = len(steps)
			}
		}
	}
	// single-step removal pass
	for i := len(best.Steps) - 1; i >= 0 && time.Now().Before(deadline); i-- {
		if i >= len(best.Steps) {
			continue
		}
		cand := append(append([]Step{}, best.Steps[:i]...), best.Steps[i+1:]...)
		try(cand)
	}
	// argument simplification
	for i := 0; i < len(best.Steps) && time.Now().Before(deadline); i++ {
		for _, f := range []func(s *Step) bool{
			func(s *Step) bool {
				if s.B != 0 {
					s.B = 0
					return true
				}
				return false
			},
			func(s *Step) bool {
				if s.C != 0 {
					s.C = 0
					return true
				}
				return false
			},
			func(s *Step) bool {
				if s.D != 0 {
					s.D = 0
					return true
				}
				return false
			},
		} {
			if i >= len(best.Steps) {
				break
			}
			cand := append([]Step{}, best.Steps...)
			if f(&cand[i]) {
				try(cand)
			}
		}
	}
	return best
}
