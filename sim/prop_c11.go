package sim

import (
	"bytes"
	"fmt"
	"strings"
)

// C11 – SMP reports success exactly when the secrets match within one session.

func init() {
	Register(&PropDef{
		ID: "C11", Title: "SMP succeeds iff the secrets match in one session",
		Config: c11Config, Run: c11Run, MaxSteps: 120,
		Rule: "runs = two honest parties in one session run SMP repeatedly (either initiator, with/without question, secrets equal / differing in one bit / empty / 1 byte / 4 KiB / binary / long secrets that differ only in the last bit or just beyond 192 bytes / one a prefix of the other, answer after a PRNG-chosen delay) with ordinary traffic, heartbeats and key rotations interleaved between the SMP steps, both versions; or (relay world) a man in the middle holding two separately keyed sessions forwards the SMP payloads unchanged; " +
			"non-trivial = at least one SMP run finished; distinct = distinct (world, secrets, step sequence) signatures",
		Assume: []string{"one initiator at a time (simultaneous initiation is only required not to succeed with different secrets)", "the relay is the reference implementation (two refotr.Peers with Mallory's key)"},
	})
}

func c11Config(rc *RunCtx) {
	r := rc.Rng
	rc.Cfg["version"] = []int{2, 3, 3}[r.Intn(3)]
	rc.Cfg["relay"] = r.Intn(4) / 3
	rc.Cfg["starter"] = r.Intn(2)
	pol := polFor(rc.Cfg["version"])
	if rc.Cfg["relay"] == 1 {
		rc.Parties = []PartyCfg{
			{KeyIdx: 0, Pol: pol, Peer: 2}, {KeyIdx: 1, Pol: pol, Peer: 3},
			{KeyIdx: 2, Pol: pol, Peer: 0, Ref: true}, {KeyIdx: 2, Pol: pol, Peer: 1, Ref: true},
		}
		return
	}
	fa := 0
	if r.Chance(1, 4) {
		fa = []int{100, 200, 1000}[r.Intn(3)]
	}
	rc.Parties = []PartyCfg{{KeyIdx: 0, Pol: pol, Peer: 1, Frag: fa}, {KeyIdx: 1, Pol: pol, Peer: 0, Frag: fa}}
}

type smpRun struct {
	init      int
	secI      int
	secR      int
	answered  bool
	outI      string // final event seen by the initiator
	outR      string
	startCall int
}

func c11Run(rc *RunCtx) *Violation {
	w := rc.NewWorld(rc.Parties)
	relay := rc.Cfg["relay"] == 1
	if relay {
		w.P[2].RefAuto, w.P[3].RefAuto = false, false
		w.P[2].RefRelay, w.P[3].RefRelay = w.P[3], w.P[2]
		// two separately keyed sessions: A <-> M and M <-> B
		w.Put(0, 2, w.P[0].Query(), true, -1, -1, "query")
		w.Put(1, 3, w.P[1].Query(), true, -1, -1, "query")
		w.Drain(1000)
		if !w.P[0].Conv.IsEncrypted() || !w.P[1].Conv.IsEncrypted() || !w.P[2].Ref.Encrypted || !w.P[3].Ref.Encrypted {
			return rc.Viol("setup.handshake", "relay sessions did not come up", nil)
		}
	} else if !w.Handshake(rc.Cfg["starter"]) {
		return rc.Viol("setup.handshake", "AKE did not complete", nil)
	}
	var viol *Violation
	var run *smpRun
	finished := 0
	// The application keeps each secret in one buffer and hands the very same slice to the
	// library every time (a retry, a re-verification): the library must not change it.
	bufs := map[[2]int][]byte{}
	secretBuf := func(party, id int) []byte {
		k := [2]int{party, id % 12}
		if b, ok := bufs[k]; ok {
			return b
		}
		b := append([]byte{}, SecretByID(id)...)
		bufs[k] = b
		return b
	}
	checkBufs := func() *Violation {
		for i := 0; i < 2; i++ {
			for id := 0; id < 7; id++ {
				if b, ok := bufs[[2]int{i, id}]; ok && !bytes.Equal(b, SecretByID(id)) {
					return rc.Viol("argument.modified", fmt.Sprintf("the library changed the caller's secret buffer (party %d, secret %d): now %s", i, id, short(b)), nil)
				}
			}
		}
		return nil
	}
	ask := [2]bool{}
	final := map[string]bool{"Success": true, "Failure": true, "Abort": true, "Cheated": true, "Error": true}
	w.Observers = append(w.Observers, func(p *Party, r *CallResult) {
		if p.Idx > 1 {
			return
		}
		for _, e := range r.Events {
			if e.Kind != "smp" {
				continue
			}
			if e.Name == "AskForSecret" || e.Name == "AskForAnswer" {
				ask[p.Idx] = true
			}
			if e.Name == "Success" {
				ok := run != nil && run.answered && !relay && bytes.Equal(SecretByID(run.secI), SecretByID(run.secR))
				if !ok && viol == nil {
					why := "the secrets entered differ"
					if relay {
						why = "the two parties are not in the same session (a relay sits between two separately keyed sessions)"
					} else if run == nil || !run.answered {
						why = "no secret was provided by the responder in this run"
					}
					d := ""
					if run != nil {
						d = fmt.Sprintf(" (initiator secret %q, responder secret %q)", short(SecretByID(run.secI)), short(SecretByID(run.secR)))
					}
					viol = rc.Viol("false.success", fmt.Sprintf("%s reports SMP success although %s%s", p.Name, why, d), map[string]string{"relay": fmt.Sprint(relay)})
				}
			}
			if run != nil && final[e.Name] {
				if p.Idx == run.init {
					run.outI = e.Name
				} else {
					run.outR = e.Name
				}
			}
		}
	})
	kinds := ""
	restarts := 0
	pendingRestart := false
	gen := func() (Step, bool) {
		r := rc.Rng
		var fly int
		for i := range w.Links {
			for j := range w.Links[i] {
				fly += len(w.Links[i][j])
			}
		}
		// smpstart smpanswer send deliver tick smprestart
		wt := []int{0, 0, 6, 20, 1, 0}
		if run == nil {
			wt[0] = 6
		} else if !relay {
			wt[5] = 1
		}
		if ask[0] || ask[1] {
			wt[1] = 6
		}
		if fly == 0 {
			wt[3] = 0
		}
		switch r.Pick(wt) {
		case 0:
			sec := []int{0, 0, 6, 2, 3, 4, 5, 4, 7, 8, 9, 10, 11}[r.Intn(13)]
			return Step{K: "smpstart", A: r.Intn(2), B: r.Intn(2), C: sec, D: r.Intn(27)}, true
		case 1:
			who := 0
			if ask[1] && (!ask[0] || r.Bool()) {
				who = 1
			}
			sec := 0
			if run != nil {
				sec = run.secI
				if r.Chance(1, 2) {
					sec = []int{0, 6, 1, 2, 3, 4, 5}[r.Intn(7)]
					// close relatives of the initiator's secret: long secrets that differ late, prefixes
					if rel, ok := map[int][]int{4: {7, 8, 11}, 7: {4, 8}, 8: {4, 7}, 9: {10}, 10: {9}, 11: {4}}[run.secI]; ok && r.Chance(2, 3) {
						sec = rel[r.Intn(len(rel))]
					}
				}
			}
			return Step{K: "smpanswer", A: who, C: sec}, true
		case 2:
			return Step{K: "send", A: r.Intn(2), B: 1 + r.Intn(3)}, true
		case 3:
			// any non-empty link, FIFO
			var ls [][2]int
			for i := range w.Links {
				for j := range w.Links[i] {
					if len(w.Links[i][j]) > 0 {
						ls = append(ls, [2]int{i, j})
					}
				}
			}
			l := ls[r.Intn(len(ls))]
			return Step{K: "deliver", A: l[0], B: l[1]}, true
		case 4:
			return Step{K: "tick", A: r.Intn(len(tickDur))}, true
		default:
			sec := []int{0, 0, 6, 3}[r.Intn(4)]
			return Step{K: "smprestart", A: r.Intn(3), B: r.Intn(2), C: sec, D: r.Intn(6)}, true
		}
	}
	closeRun := func() *Violation {
		if run == nil {
			return nil
		}
		// evaluate a finished run (network quiescent)
		if run.answered && !relay {
			eq := bytes.Equal(SecretByID(run.secI), SecretByID(run.secR))
			if eq && (run.outI != "Success" || run.outR != "Success") {
				return rc.Viol("missed.success", fmt.Sprintf("equal secrets (%s) but initiator saw %q and responder saw %q", short(SecretByID(run.secI)), run.outI, run.outR),
					map[string]string{"i": run.outI, "r": run.outR})
			}
			if !eq {
				if run.outR != "Failure" {
					return rc.Viol("mismatch.unreported", fmt.Sprintf("different secrets: the responder must report failure, saw %q", run.outR), map[string]string{"side": "responder", "saw": run.outR})
				}
				if run.outI != "Failure" && run.outI != "Abort" {
					return rc.Viol("mismatch.unreported", fmt.Sprintf("different secrets: the initiator must report failure or abort, saw %q", run.outI), map[string]string{"side": "initiator", "saw": run.outI})
				}
			}
			finished++
		} else if run.answered && relay {
			finished++
		}
		run = nil
		return nil
	}
	for {
		s, ok := rc.NextStep(gen)
		if !ok {
			break
		}
		switch s.K {
		case "smprestart":
			// the initiator starts again while its run is still in progress (abort + new request)
			// only at a quiescent moment while the peer has been asked but has not answered yet
			// (otherwise messages of the old run are still under way and the outcome is not defined)
			if run == nil || run.answered || w.TotalInFlight() != 0 || !(ask[0] || ask[1]) {
				continue
			}
			i := run.init
			if s.A%3 == 2 {
				// counter-request: the side that is being asked does not answer but starts a run of
				// its own (both users press "authenticate"); roles swap, the former initiator is asked
				i = 1 - run.init
				if !ask[i] {
					continue
				}
				rc.Probe("counter_request")
			}
			oldRun, oldAsk := run, ask
			if s.D%3 == 1 {
				// the randomness source fails while the new request is being made
				w.P[i].Rand.FailAt, w.P[i].Rand.Mode = w.P[i].Rand.reads+s.B%2, 1+s.D%4
				w.Fault("rand-read-fails-in-restart")
			}
			run = &smpRun{init: i, secI: s.C, startCall: w.Seq}
			ask = [2]bool{}
			r := w.P[i].SMPStartRaw("", secretBuf(i, s.C))
			w.P[i].Rand.FailAt = -1
			if r.Err != "" && len(r.Out) == 0 {
				// the call failed and sent nothing: it did not happen. The run that was going on goes
				// on - with the secret it was started with
				run, ask = oldRun, oldAsk
				rc.Probe("restart_failed_old_run_continues")
				break
			}
			w.Enqueue(w.P[i], r)
			restarts++
			pendingRestart = true
		case "smpstart":
			if run != nil {
				continue
			}
			i := s.A % 2
			if !w.P[i].Conv.IsEncrypted() {
				continue
			}
			run = &smpRun{init: i, secI: s.C, startCall: w.Seq}
			ask = [2]bool{}
			q := ""
			if s.B%2 == 1 {
				q = fmt.Sprintf("question-%d?", s.B)
			}
			odd := false
			if s.D%9 == 7 || s.D%9 == 8 {
				// questions that cannot travel as they are: a NUL byte inside, or longer than a TLV can hold
				odd = true
				q = "who\x00are you?"
				if s.D%9 == 8 {
					q = strings.Repeat("why? ", 14000)
				}
			}
			r := w.P[i].SMPStartRaw(q, secretBuf(i, s.C))
			w.Enqueue(w.P[i], r)
			if odd {
				// either the call says it cannot do that, or the peer's user gets asked: it must not
				// report success to the caller and then leave both sides waiting for ever
				w.Drain(2000)
				if r.Err == "" && !ask[1-i] && viol == nil {
					return rc.Viol("start.not-asked", fmt.Sprintf("%s.StartAuthenticate accepted a question of %d bytes (NUL inside: %v) without an error, but the peer was never asked: both sides now wait for ever", w.P[i].Name, len(q), strings.Contains(q, "\x00")), map[string]string{"question": map[bool]string{true: "nul", false: "long"}[strings.Contains(q, "\x00")]})
				}
				if r.Err != "" {
					run = nil
				}
			}
		case "smpanswer":
			i := s.A % 2
			if run == nil || !ask[i] || i == run.init {
				continue
			}
			run.secR, run.answered = s.C, true
			ask[i] = false
			r := w.P[i].SMPAnswerRaw(secretBuf(i, s.C))
			w.Enqueue(w.P[i], r)
		case "deliver":
			s.C = 0
			w.Exec(s)
		default:
			w.Exec(s)
		}
		kinds += s.K[:2] + fmt.Sprint(s.A%4)
		if viol != nil {
			return viol
		}
		if v := checkBufs(); v != nil {
			return v
		}
		if pendingRestart && w.TotalInFlight() == 0 {
			// an orderly restart (abort + new request) has been delivered: the peer must have
			// been asked for the secret again, otherwise the run can never succeed
			pendingRestart = false
			if run != nil && !run.answered && !ask[1-run.init] {
				return rc.Viol("restart.not-asked", fmt.Sprintf("%s restarted SMP while the peer was being asked; after delivery the peer has not been asked again", w.P[run.init].Name), nil)
			}
		}
		if run != nil && run.answered && w.TotalInFlight() == 0 {
			if v := closeRun(); v != nil {
				return v
			}
		}
	}
	w.Drain(3000)
	if viol != nil {
		return viol
	}
	if run != nil && run.answered {
		if v := closeRun(); v != nil {
			return v
		}
	}
	rc.Stats.Nontrivial = finished >= 1
	rc.Stats.Sig = fmt.Sprintf("v%d relay%d %s", rc.Cfg["version"], rc.Cfg["relay"], kinds)
	rc.ProbeN("smp_runs_finished", finished)
	rc.ProbeN("smp_restarts_mid_run", restarts)
	if relay {
		rc.Probe("relay_worlds")
	}
	return nil
}
