package sim

import (
	"bytes"
	"fmt"

	"verifsim/refotr"
)

// C16 – version and policy negotiation; untouched pass-through of plain text.
// Each run is one configuration: (policy set of A, policy set of B, offer form).
// The thorough tier enumerates the whole product.

var c16Forms = []string{"?OTR?", "?OTR?v2?", "?OTRv2?", "?OTRv23?", "?OTRv3?", "?OTRv4?", "?OTRv?", "?OTRv32x?",
	"ws:2", "ws:3", "ws:32", "ws:123", "ws:1", "ws:", "own-query", "own-wstag", "commit:2", "commit:3", "commit:4"}

func init() {
	Register(&PropDef{
		ID: "C16", Title: "version/policy negotiation and plain-text pass-through",
		Config: c16Config, Run: c16Run, MaxSteps: 1, Level: "exploration",
		Fixed: func(tier string) int {
			if tier == "thorough" {
				return 64 * 64 * len(c16Forms)
			}
			return 0
		},
		Rule: "a run = one configuration (policy set of A: 64, policy set of B: 64, offer form: 19 = query strings incl. v1/unknown/empty/garbled version lists, whitespace tags with version subsets in any order, the party's own query and whitespace tag, a first DH-Commit of v2/v3/unknown version from the reference peer); the thorough tier enumerates all 77 824 configurations, the quick tier samples them; " +
			"oracle = negotiation model (version = highest of own policy and offer, decided at the first commitment; no message of a version outside the own policy is ever emitted; offers/messages of other versions are not acted on; parties sharing the model's version end encrypted) + byte-exact pass-through checks; non-trivial = the offer was acted upon or explicitly refused; distinct = distinct configurations",
		Assume: []string{"the protocol version is sticky by design; the highest-common-version rule is asserted at the first commitment of a fresh conversation"},
	})
}

func c16Config(rc *RunCtx) {
	r := rc.Rng
	if rc.Thorough() {
		j := rc.J
		rc.Cfg["polA"], rc.Cfg["polB"], rc.Cfg["form"] = j%64, (j/64)%64, (j/4096)%len(c16Forms)
	} else {
		rc.Cfg["polA"], rc.Cfg["polB"], rc.Cfg["form"] = r.Intn(64), r.Intn(64), r.Intn(len(c16Forms))
		if r.Chance(1, 2) { // bias towards configurations where something can happen
			rc.Cfg["polA"] |= 1 + r.Intn(3)
			rc.Cfg["polB"] |= 1 + r.Intn(3)
		}
	}
	rc.Parties = []PartyCfg{{KeyIdx: 0, Pol: rc.Cfg["polA"], Peer: 1, ErrHandler: r.Bool()}, {KeyIdx: 1, Pol: rc.Cfg["polB"], Peer: 0, ErrHandler: r.Bool()}}
}

func polVersions(pol int) map[int]bool {
	m := map[int]bool{}
	if pol&PolV2 != 0 {
		m[2] = true
	}
	if pol&PolV3 != 0 {
		m[3] = true
	}
	return m
}

func highest(offer []int, allowed map[int]bool) int {
	best := 0
	for _, v := range offer {
		if allowed[v] && v > best {
			best = v
		}
	}
	return best
}

// otrVersionOf returns the protocol version of an emitted OTR message or fragment (0: not OTR-encoded).
func otrVersionOf(b []byte) int {
	switch {
	case bytes.HasPrefix(b, []byte("?OTR|")):
		return 3
	case bytes.HasPrefix(b, []byte("?OTR,")):
		return 2
	case bytes.HasPrefix(b, []byte("?OTR:")):
		if raw, err := refotr.Dearmor(b); err == nil && len(raw) >= 2 {
			return int(raw[0])<<8 | int(raw[1])
		}
	}
	return 0
}

func c16Run(rc *RunCtx) *Violation {
	w := rc.NewWorld(rc.Parties)
	a, b := w.P[0], w.P[1]
	wa, wb := polVersions(a.Cfg.Pol), polVersions(b.Cfg.Pol)
	form := c16Forms[rc.Cfg["form"]%len(c16Forms)]
	var viol *Violation
	// version containment on everything either party emits
	w.Observers = append(w.Observers, func(p *Party, r *CallResult) {
		if viol != nil {
			return
		}
		if r.Panic != "" {
			viol = rc.Viol("panic", fmt.Sprintf("%s.%s panicked: %s", p.Name, r.Kind, r.Panic), map[string]string{"call": r.Kind})
			return
		}
		allowed := polVersions(p.Cfg.Pol)
		if len(allowed) == 0 {
			return // pass-through: what it returns is the caller's own data
		}
		for _, o := range r.Out {
			if v := otrVersionOf(o); v != 0 && !allowed[v] {
				viol = rc.Viol("forbidden-version.emitted", fmt.Sprintf("%s (policy %d) emitted a version %d message: %s", p.Name, p.Cfg.Pol, v, short(o)), map[string]string{"v": fmt.Sprint(v)})
				return
			}
			if q, ok := refotr.ParseQuery(o); ok && !refotr.IsArmored(o) && bytes.HasPrefix(o, []byte("?OTR")) {
				for _, v := range q {
					if !allowed[v] {
						viol = rc.Viol("forbidden-version.offered", fmt.Sprintf("%s (policy %d) offers version %d in %q", p.Name, p.Cfg.Pol, v, o), map[string]string{"v": fmt.Sprint(v)})
						return
					}
				}
			}
		}
	})
	// ---- pass-through and plain-text handling (independent of the offer)
	samples := [][]byte{[]byte("hello world"), []byte("?OTRv23?"), []byte("?OTR:AAMDxyz."), []byte("?OTR|00000100|00000200,00001,00001,a,"), []byte("?OTR Error: x"),
		append([]byte("tagged"), refotr.WhitespaceTag(true, true)...), {0xff, 0x00, 0x01, 'x'}, []byte("")}
	for _, p := range w.P {
		if len(polVersions(p.Cfg.Pol)) != 0 {
			continue
		}
		for _, x := range samples {
			r := p.Send(x)
			if len(r.Out) != 1 || !bytes.Equal(r.Out[0], x) || r.Err != "" {
				return rc.Viol("passthrough.send", fmt.Sprintf("%s allows no version; Send(%s) returned %d message(s) %s err=%q", p.Name, short(x), len(r.Out), shortList(r.Out), r.Err), nil)
			}
			r = p.Receive(x)
			if !bytes.Equal(r.Plain, x) || len(r.Out) != 0 || r.Err != "" {
				return rc.Viol("passthrough.receive", fmt.Sprintf("%s allows no version; Receive(%s) returned %s, %d messages, err=%q", p.Name, short(x), short(r.Plain), len(r.Out), r.Err), nil)
			}
		}
		rc.Probe("passthrough_checked")
	}
	if viol != nil {
		return viol
	}
	// plaintext state: marker-free text byte-exact, whitespace tag removed exactly
	if len(wb) != 0 {
		txt := w.GenText(a, 3, 1)
		r := b.Receive(txt)
		if !bytes.Equal(r.Plain, txt) {
			return rc.Viol("plaintext.altered", fmt.Sprintf("B in plaintext state returned %s for the marker-free text %s", short(r.Plain), short(txt)), nil)
		}
		if len(r.Out) != 0 {
			return rc.Viol("plaintext.answered", "B answered a marker-free plain text", nil)
		}
	}
	if viol != nil {
		return viol
	}
	// ---- the offer
	var offer []int
	acted := false
	expectB := 0
	switch {
	case form == "own-query":
		if len(wa) == 0 {
			rc.Stats.Sig = fmt.Sprintf("%d/%d/%s", a.Cfg.Pol, b.Cfg.Pol, form)
			return nil
		}
		q := a.Query()
		offer, _ = refotr.ParseQuery(q)
		for _, v := range offer {
			if !wa[v] {
				return rc.Viol("forbidden-version.offered", fmt.Sprintf("A's query %q offers a version outside its policy", q), map[string]string{"v": fmt.Sprint(v)})
			}
		}
		for v := range wa {
			found := false
			for _, o := range offer {
				found = found || o == v
			}
			if !found {
				return rc.Viol("query.incomplete", fmt.Sprintf("A's query %q does not offer allowed version %d", q, v), nil)
			}
		}
		w.Put(0, 1, q, true, -1, -1, "query")
		expectB = highest(offer, wb)
	case form == "own-wstag":
		txt := w.GenText(a, 3, 0)
		r := a.Send(txt)
		if a.Cfg.Pol&PolReqEnc != 0 || a.Cfg.Pol&PolWSTag == 0 || len(wa) == 0 {
			// no tag expected; covered by other properties
			rc.Stats.Sig = fmt.Sprintf("%d/%d/%s", a.Cfg.Pol, b.Cfg.Pol, form)
			return viol
		}
		if len(r.Out) != 1 || !bytes.HasPrefix(r.Out[0], txt) {
			return rc.Viol("wstag.send", "Send under the whitespace-tag policy did not return the text followed by a tag", nil)
		}
		_, vs, found := refotr.FindWhitespaceTag(r.Out[0])
		if !found {
			return rc.Viol("wstag.send", "no whitespace tag appended under the send-whitespace-tag policy", nil)
		}
		for _, v := range vs {
			if !wa[v] {
				return rc.Viol("forbidden-version.offered", fmt.Sprintf("A's whitespace tag offers version %d outside its policy", v), map[string]string{"v": fmt.Sprint(v)})
			}
		}
		offer = vs
		w.Enqueue(a, r)
		if len(wb) != 0 {
			rb := w.Deliver(w.Take(0, 1, 0))
			if !bytes.Equal(rb.Plain, txt) {
				return rc.Viol("wstag.receive", fmt.Sprintf("B returned %s for a tagged message whose text is %s (exactly the tag must be removed)", short(rb.Plain), short(txt)), nil)
			}
			if b.Cfg.Pol&PolWSStart != 0 {
				expectB = highest(offer, wb)
			}
			if expectB == 0 && hasAKEOut(rb) {
				return rc.Viol("offer.acted", "B started a key exchange from a whitespace tag without the whitespace-start policy or without a common version", map[string]string{"form": form})
			}
		}
	case len(form) >= 3 && form[:3] == "ws:":
		// the user's text may itself end in blanks: only the tag may be removed
		txt := []byte("plain text before the tag" + []string{"", " ", "\t ", " \t\t"}[(a.Cfg.Pol+b.Cfg.Pol)%4])
		msg := append(cp(txt), []byte(refotr.WhitespaceBase)...)
		for _, c := range form[3:] {
			switch c {
			case '1':
				msg = append(msg, []byte(refotr.WhitespaceV1)...)
				offer = append(offer, 1)
			case '2':
				msg = append(msg, []byte(refotr.WhitespaceV2)...)
				offer = append(offer, 2)
			case '3':
				msg = append(msg, []byte(refotr.WhitespaceV3)...)
				offer = append(offer, 3)
			}
		}
		if len(wb) == 0 {
			break
		}
		w.Put(0, 1, msg, false, -1, -1, "wstag")
		rb := w.Deliver(w.Take(0, 1, 0))
		if !bytes.Equal(rb.Plain, txt) {
			return rc.Viol("wstag.receive", fmt.Sprintf("B returned %s for a tagged message whose text is %s", short(rb.Plain), short(txt)), nil)
		}
		if b.Cfg.Pol&PolWSStart != 0 {
			expectB = highest(offer, wb)
		}
		if expectB == 0 && hasAKEOut(rb) {
			return rc.Viol("offer.acted", "B started a key exchange from a whitespace tag it must not act on", map[string]string{"form": form})
		}
	case len(form) >= 7 && form[:7] == "commit:":
		return c16Commit(rc, w, int(form[7]-'0'), &viol)
	default:
		offer, _ = refotr.ParseQuery([]byte(form))
		if len(wb) == 0 {
			break
		}
		w.Put(0, 1, []byte(form), false, -1, -1, "query")
		expectB = highest(offer, wb)
	}
	if viol != nil {
		return viol
	}
	// B's reaction to a query-type offer
	if w.InFlight(0, 1) > 0 && len(wb) != 0 {
		rb := w.Deliver(w.Take(0, 1, 0))
		if expectB == 0 && hasAKEOut(rb) {
			return rc.Viol("offer.acted", fmt.Sprintf("B (policy %d) started a key exchange on the offer %q, which contains no version it allows", b.Cfg.Pol, form), map[string]string{"form": form})
		}
	}
	if expectB != 0 {
		// B must have started with the model's version
		got := 0
		for _, x := range w.Links[1][0] {
			if v := otrVersionOf(x.Bytes); v != 0 {
				got = v
				break
			}
		}
		if got != expectB {
			return rc.Viol("negotiation.version", fmt.Sprintf("offer %q (versions %v) to B with policy %d: the model says version %d, B started version %d", form, offer, b.Cfg.Pol, expectB, got),
				map[string]string{"expect": fmt.Sprint(expectB), "got": fmt.Sprint(got)})
		}
		acted = true
		w.Drain(400)
		both := wa[expectB] && !a.Cfg.NoKeys
		if both && (!a.Conv.IsEncrypted() || !b.Conv.IsEncrypted()) {
			return rc.Viol("negotiation.incomplete", fmt.Sprintf("both policies allow version %d and B acted on the offer, yet A encrypted=%v B encrypted=%v", expectB, a.Conv.IsEncrypted(), b.Conv.IsEncrypted()), nil)
		}
		if !wa[expectB] && (a.Conv.IsEncrypted() || b.Conv.IsEncrypted()) {
			return rc.Viol("forbidden-version.acted", fmt.Sprintf("A's policy forbids version %d but a session came up", expectB), nil)
		}
		if both {
			for i := 0; i < 2; i++ {
				p := w.P[i]
				txt := w.GenText(p, 2, 0)
				r := p.Send(txt)
				w.Enqueue(p, r)
				w.Drain(200)
				got := w.Got[1-i]
				if len(got) == 0 || !bytes.Equal(got[len(got)-1], txt) {
					return rc.Viol("negotiation.incomplete", "session up but a probe text is not delivered", nil)
				}
			}
		}
	}
	if viol == nil && expectB != 0 && a.Conv.IsEncrypted() && b.Conv.IsEncrypted() {
		// ---- offers arriving inside the running session (a second client of the peer, a stale or
		// injected query): whatever they list, the session keeps the version it negotiated, and
		// keeps working - inside the 60 s window in which repeated queries are ignored and after it
		sessionV := expectB
		w.Observers = append(w.Observers, func(p *Party, r *CallResult) {
			for _, o := range r.Out {
				if v := otrVersionOf(o); v != 0 && v != sessionV && viol == nil {
					viol = rc.Viol("session.version-changed", fmt.Sprintf("%s emitted a version %d message in a session negotiated as version %d, after an offer arrived inside the session: %s", p.Name, v, sessionV, short(o)), nil)
				}
			}
		})
		late := []string{"?OTRv2?", "?OTRv3?", "?OTR?v2?", "?OTRv23?", "?OTRv4?"}
		for round := 0; round < 2 && viol == nil; round++ {
			if round == 1 {
				w.Tick(tickDur[3])
			}
			for qi, q := range late {
				to := (qi + round) % 2
				w.Put(1-to, to, []byte(q), false, -1, -1, "late-query")
				lateOffer, _ := refotr.ParseQuery([]byte(q))
				rq := w.Deliver(w.Take(1-to, to, 0))
				if highest(lateOffer, polVersions(w.P[to].Cfg.Pol)) == 0 && hasAKEOut(rq) {
					return rc.Viol("offer.acted", fmt.Sprintf("%s (policy %d, in a version %d session) answered the offer %q, which contains no version it allows, with a key exchange message", w.P[to].Name, w.P[to].Cfg.Pol, sessionV, q), map[string]string{"form": "late:" + q})
				}
				w.Drain(400)
				if viol != nil {
					break
				}
				for i := 0; i < 2; i++ {
					p := w.P[i]
					if !p.Conv.IsEncrypted() {
						continue
					}
					txt := w.GenText(p, 2, 0)
					r := p.Send(txt)
					w.Enqueue(p, r)
					w.Drain(400)
					got := w.Got[1-i]
					if viol == nil && (len(got) == 0 || !bytes.Equal(got[len(got)-1], txt)) {
						return rc.Viol("session.broken-by-offer", fmt.Sprintf("after the offer %q arrived at %s inside the version %d session, a text from %s is no longer delivered (Send error %q)", q, w.P[to].Name, sessionV, p.Name, r.Err), nil)
					}
				}
			}
		}
		rc.Probe("late_offers_checked")
		// ---- and after the session has been ended: an offer without an allowed version is still not acted on
		if viol == nil {
			for i := 0; i < 2; i++ {
				r := w.P[i].End()
				w.Enqueue(w.P[i], r)
				w.Drain(400)
			}
			w.Tick(tickDur[3])
			for qi, q := range []string{"?OTRv4?", "?OTR?", "?OTRv?", "?OTRv2?", "?OTRv3?"} {
				to := qi % 2
				lateOffer, _ := refotr.ParseQuery([]byte(q))
				if highest(lateOffer, polVersions(w.P[to].Cfg.Pol)) != 0 {
					continue
				}
				rq := w.P[to].Receive([]byte(q))
				if hasAKEOut(rq) {
					return rc.Viol("offer.acted", fmt.Sprintf("%s (policy %d, after an ended version %d session) answered the offer %q, which contains no version it allows, with a key exchange message", w.P[to].Name, w.P[to].Cfg.Pol, sessionV, q), map[string]string{"form": "after-end:" + q})
				}
			}
		}
	}
	if viol != nil {
		return viol
	}
	rc.Stats.Nontrivial = acted || len(offer) > 0
	rc.Stats.Sig = fmt.Sprintf("%d/%d/%s", a.Cfg.Pol, b.Cfg.Pol, form)
	rc.Probe("form_" + form)
	if acted {
		rc.Probe(fmt.Sprintf("negotiated_v%d", expectB))
	}
	return nil
}

func hasAKEOut(r *CallResult) bool {
	for _, o := range r.Out {
		if otrVersionOf(o) != 0 {
			return true
		}
	}
	return false
}

func shortList(bs [][]byte) string {
	s := "["
	for _, b := range bs {
		s += short(b) + " "
	}
	return s + "]"
}

// c16Commit: the first message is a DH-Commit of version v built by the reference peer.
func c16Commit(rc *RunCtx, w *World, v int, viol **Violation) *Violation {
	b := w.P[1]
	wb := polVersions(b.Cfg.Pol)
	if len(wb) == 0 {
		return nil
	}
	ver := uint16(v)
	pv := ver
	if pv > 3 {
		pv = 3
	}
	peer := refotr.NewPeer(pv, &TestKey(2).PrivateKey, NewSimRand(Mix(rc.Seed, "c16peer", 0), nil), 0x31337)
	c, err := peer.StartAKE()
	if err != nil {
		return nil
	}
	if v > 3 {
		raw, _ := refotr.Dearmor(c)
		raw[1] = byte(v)
		c = refotr.Armor(raw)
	}
	r := b.Receive(c)
	if *viol != nil {
		return *viol
	}
	if !wb[v] {
		if hasAKEOut(r) || r.Plain != nil {
			return rc.Viol("forbidden-version.acted", fmt.Sprintf("B (policy %d) answered a version %d DH-Commit", b.Cfg.Pol, v), map[string]string{"v": fmt.Sprint(v)})
		}
		// and a later exchange in an allowed version must still work, unless B allows both
		// versions and had not committed yet (known: version decided by the first message)
		rc.Stats.Nontrivial = true
		rc.Stats.Sig = fmt.Sprintf("-/%d/commit:%d", b.Cfg.Pol, v)
		rc.Probe("commit_refused")
		return nil
	}
	if len(r.Out) == 0 || otrVersionOf(r.Out[0]) != v {
		if b.Cfg.NoKeys {
			return nil
		}
		return rc.Viol("negotiation.version", fmt.Sprintf("B (policy %d) did not answer a version %d DH-Commit in that version (out %s, err %q)", b.Cfg.Pol, v, shortList(r.Out), r.Err), map[string]string{"expect": fmt.Sprint(v), "got": "none"})
	}
	// finish the exchange with the reference peer
	msg := r.Out
	for n := 0; n < 6 && len(msg) > 0; n++ {
		var next [][]byte
		for _, m := range msg {
			out, _ := peer.Receive(m)
			for _, o := range out {
				rr := b.Receive(o)
				next = append(next, rr.Out...)
			}
		}
		msg = next
	}
	if !b.Conv.IsEncrypted() || !peer.Encrypted {
		return rc.Viol("negotiation.incomplete", fmt.Sprintf("B allows version %d but the exchange started by a v%d DH-Commit did not complete", v, v), nil)
	}
	rc.Stats.Nontrivial = true
	rc.Stats.Sig = fmt.Sprintf("-/%d/commit:%d", b.Cfg.Pol, v)
	rc.Probe(fmt.Sprintf("negotiated_v%d", v))
	return *viol
}
