package sim

import (
	"bytes"
	"fmt"

	"verifsim/refotr"
)

// AW is the two-party world with an active attacker on both links, shared by
// C02 (authenticity), C05 (replay) and C06 (rejection is a no-op).
type AW struct {
	rc    *RunCtx
	w     *World
	o     *Omni
	ask   [2]bool
	kinds string

	mutated   int
	replayed  int
	classes   map[string]int
	delivered map[string]int // text -> times returned (per receiver prefix)

	posts    map[int]PostState // by call sequence number: the party's reported state after that call
	pres     map[int]PostState // by call sequence number: the party's reported state before that call
	prevPost [2]PostState      // the party's reported state before the call being observed
	curPost  [2]PostState
}

func awConfig(rc *RunCtx) {
	r := rc.Rng
	rc.Cfg["version"] = []int{2, 3, 3, 23}[r.Intn(4)]
	rc.Cfg["starter"] = r.Intn(2)
	rc.Cfg["prefix"] = r.Intn(13)
	rc.Cfg["smp"] = r.Intn(2)
	rc.Cfg["resession"] = r.Intn(3) / 2
	pol := polFor(rc.Cfg["version"])
	rc.Parties = []PartyCfg{
		{KeyIdx: 0, Pol: pol, Peer: 1, ErrHandler: r.Bool()},
		{KeyIdx: 1, Pol: pol, Peer: 0, ErrHandler: r.Bool()},
	}
	// how the session comes up: 0 query, 1 whitespace tag (starter sends tagged clear text, the
	// other side has whitespace-start), 2 Send under require-encryption; policy bits vary accordingly
	rc.Cfg["startkind"] = r.Intn(3)
	s := rc.Cfg["starter"]
	switch rc.Cfg["startkind"] {
	case 1:
		rc.Parties[s].Pol |= PolWSTag
		rc.Parties[1-s].Pol |= PolWSStart
	case 2:
		rc.Parties[s].Pol |= PolReqEnc
	}
	for i := range rc.Parties {
		if r.Chance(1, 3) {
			rc.Parties[i].Pol |= []int{PolWSTag, PolWSStart, PolErrStart}[r.Intn(3)]
		}
	}
}

func newAW(rc *RunCtx) (*AW, *Violation) {
	w := rc.NewWorld(rc.Parties)
	aw := &AW{rc: rc, w: w, o: NewOmni(w), classes: map[string]int{}, delivered: map[string]int{}, posts: map[int]PostState{}, pres: map[int]PostState{}}
	w.Observers = append(w.Observers, func(p *Party, r *CallResult) {
		aw.posts[r.Seq] = r.Post
		if p.Idx < 2 {
			aw.pres[r.Seq] = aw.curPost[p.Idx]
			aw.prevPost[p.Idx], aw.curPost[p.Idx] = aw.curPost[p.Idx], r.Post
		}
		if r.HasEvent("smp", "AskForSecret") || r.HasEvent("smp", "AskForAnswer") {
			aw.ask[p.Idx] = true
		}
		if r.Kind == "smpanswer" || r.HasEvent("smp", "Abort") {
			aw.ask[p.Idx] = false
		}
	})
	st := w.P[rc.Cfg["starter"]%2]
	ok := false
	switch rc.Cfg["startkind"] {
	case 1, 2:
		r := st.Send(w.GenText(st, 2, 0))
		w.Enqueue(st, r)
		w.Drain(1000)
		ok = w.P[0].Conv.IsEncrypted() && w.P[1].Conv.IsEncrypted()
	default:
		ok = w.Handshake(st.Idx)
	}
	if !ok {
		return nil, rc.Viol("setup.handshake", fmt.Sprintf("AKE (start kind %d) over reliable links did not complete", rc.Cfg["startkind"]), nil)
	}
	// deterministic prefix: some traffic with rotations
	n := rc.Cfg["prefix"]
	for i := 0; i < n; i++ {
		p := w.P[(i+rc.Cfg["starter"])%2]
		if i%3 == 2 {
			p = w.P[(i+1+rc.Cfg["starter"])%2]
		}
		r := p.Send(w.GenText(p, 2, 0))
		w.Enqueue(p, r)
		w.Drain(1000)
	}
	return aw, nil
}

// dataInFlight returns indices of in-flight messages on a link that are data messages.
func (aw *AW) pickData(from, to, idx int) (int, *Wire) {
	l := aw.w.Links[from][to]
	if len(l) == 0 {
		return -1, nil
	}
	idx %= len(l)
	for k := 0; k < len(l); k++ {
		x := l[(idx+k)%len(l)]
		if refotr.IsArmored(x.Bytes) {
			return (idx + k) % len(l), x
		}
	}
	return -1, nil
}

// exec executes attacker steps (and the common ones).
func (aw *AW) exec(s Step) *CallResult {
	w := aw.w
	switch s.K {
	case "mutate":
		from := s.A % 2
		i, x := aw.pickData(from, 1-from, s.C)
		if x == nil {
			w.Logf("noop %s", s)
			return nil
		}
		m := MutateAny(aw.o, from, x.Bytes, s.B, s.D)
		y := &Wire{ID: w.nextWire, From: x.From, To: x.To, Bytes: m.Bytes, Genuine: false, Parent: x.ID, Call: -1, Note: "mutated:" + m.Class, AuthChanged: m.AuthChanged, Class: m.Class, Origin: x.ID}
		if x.Origin >= 0 {
			y.Origin = x.Origin
		}
		// what counts is the difference to the genuine message it derives from
		if og := aw.origin(y); og != nil && og != y {
			a1, ok1 := authPart(og.Bytes)
			a2, ok2 := authPart(y.Bytes)
			if ok1 {
				y.AuthChanged = !ok2 || !bytes.Equal(a1, a2)
			}
		}
		w.nextWire++
		w.Arch = append(w.Arch, y)
		l := w.Links[from][1-from]
		// insert the mutated copy just before the genuine message
		nl := append([]*Wire{}, l[:i]...)
		nl = append(nl, y)
		nl = append(nl, l[i:]...)
		w.Links[from][1-from] = nl
		w.Fault("mutate:" + m.Class)
		aw.mutated++
		aw.classes[m.Class]++
		w.Logf("mutate wire=%d -> wire=%d class=%s authChanged=%v", x.ID, y.ID, m.Class, m.AuthChanged)
		return nil
	case "replay":
		// re-deliver an archived message (any earlier wire message to this receiver)
		to := s.A % 2
		var cands []*Wire
		for _, x := range w.Arch {
			if x.To == to && x.Delivered > 0 && (refotr.IsArmored(x.Bytes) || refotr.IsFragment(x.Bytes)) {
				cands = append(cands, x)
			}
		}
		if len(cands) == 0 {
			w.Logf("noop %s", s)
			return nil
		}
		x := cands[len(cands)-1-s.B%len(cands)] // B=0: the most recently delivered one
		y := &Wire{ID: w.nextWire, From: x.From, To: x.To, Bytes: cp(x.Bytes), Genuine: x.Genuine, Parent: x.ID, Call: x.Call, Note: "replay", AuthChanged: x.AuthChanged, Class: x.Class, Origin: x.ID}
		if x.Origin >= 0 {
			y.Origin = x.Origin
		}
		w.nextWire++
		w.Arch = append(w.Arch, y)
		w.Fault("replay")
		aw.replayed++
		w.Logf("replay wire=%d as wire=%d", x.ID, y.ID)
		r := w.Deliver(y)
		return r
	case "plain":
		to := s.A % 2
		body := []byte(fmt.Sprintf("clear-%d", s.B))
		if s.B%2 == 1 {
			body = append(body, refotr.WhitespaceTag(true, true)...)
		}
		y := w.Put(1-to, to, body, false, -1, -1, "plain-injection")
		y.Class = "plain"
		w.Fault("inject-plain")
		_ = y
		return nil
	case "resession":
		// user ends and restarts the private conversation (new session, same peer)
		p := w.P[s.A%2]
		q := w.P[1-s.A%2]
		r := p.End()
		w.Enqueue(p, r)
		w.Drain(1000)
		q.End() // the peer acknowledges the end (leaves finished state)
		w.Tick(tickDur[3])
		// who starts the new session, and how: a query, or - under require-encryption - simply
		// the next text (queued, sent when the exchange completes)
		st := p
		if s.B&1 == 1 {
			st = q
		}
		if s.B&2 != 0 && st.Cfg.Pol&PolReqEnc != 0 {
			r = st.Send(w.GenText(st, 2, 0))
			w.Enqueue(st, r)
			w.Drain(1000)
			w.Fault("session-restarted-by-send")
		} else {
			w.Handshake(st.Idx)
		}
		return nil
	}
	r, _ := w.Exec(s)
	return r
}

// origin returns the genuine wire a (possibly mutated or replayed) wire derives from.
func (aw *AW) origin(x *Wire) *Wire {
	for x != nil && x.Origin >= 0 && x.Origin < len(aw.w.Arch) {
		o := aw.w.Arch[x.Origin]
		if o == x {
			break
		}
		x = o
	}
	return x
}

func (aw *AW) gen(wt []int) (Step, bool) {
	// wt: sendA sendB deliver drop dup tick mutate replay plain resession smpstart smpanswer extrakey deliverOOO
	r := aw.rc.Rng
	w := aw.w
	fly := [2]int{w.InFlight(0, 1), w.InFlight(1, 0)}
	ww := append([]int{}, wt...)
	if fly[0]+fly[1] == 0 {
		ww[2], ww[3], ww[4], ww[6], ww[13] = 0, 0, 0, 0, 0
	}
	if fly[0]+fly[1] > 12 {
		ww[0], ww[1] = 0, 0
		ww[2] *= 3
	}
	if !(w.P[0].Conv.IsEncrypted() && w.P[1].Conv.IsEncrypted()) {
		ww[10], ww[12] = 0, 0
	}
	if !aw.ask[0] && !aw.ask[1] {
		ww[11] = 0
	}
	link := func() int {
		a := r.Intn(2)
		if fly[a] == 0 {
			a = 1 - a
		}
		return a
	}
	switch r.Pick(ww) {
	case 0:
		return Step{K: "send", A: 0, B: 1 + r.Intn(4), C: awAlphabet(r)}, true
	case 1:
		return Step{K: "send", A: 1, B: 1 + r.Intn(4), C: awAlphabet(r)}, true
	case 2:
		a := link()
		return Step{K: "deliver", A: a, B: 1 - a, C: 0}, true
	case 3:
		a := link()
		return Step{K: "drop", A: a, B: 1 - a, C: r.Intn(3)}, true
	case 4:
		a := link()
		return Step{K: "dup", A: a, B: 1 - a, C: r.Intn(3)}, true
	case 5:
		return Step{K: "tick", A: r.Intn(len(tickDur))}, true
	case 6:
		return Step{K: "mutate", A: link(), B: r.Intn(nMutators), C: r.Intn(3), D: r.Intn(1 << 16)}, true
	case 7:
		b := 0
		if r.Chance(1, 2) {
			b = r.Intn(30)
		}
		return Step{K: "replay", A: r.Intn(2), B: b}, true
	case 8:
		return Step{K: "plain", A: r.Intn(2), B: r.Intn(100)}, true
	case 9:
		return Step{K: "resession", A: r.Intn(2), B: r.Intn(4)}, true
	case 10:
		return Step{K: "smpstart", A: r.Intn(2), B: r.Intn(2), C: 0}, true
	case 11:
		who := 0
		if aw.ask[1] && (!aw.ask[0] || r.Bool()) {
			who = 1
		}
		return Step{K: "smpanswer", A: who, C: 0}, true
	case 12:
		return Step{K: "extrakey", A: r.Intn(2), B: r.Intn(100), C: r.Intn(3)}, true
	default:
		a := link()
		return Step{K: "deliver", A: a, B: 1 - a, C: 1 + r.Intn(4)}, true
	}
}

// hasDataOut reports whether a call emitted an OTR data message (a reply to TLVs, a heartbeat ...).
func hasDataOut(r *CallResult) bool {
	for _, o := range r.Out {
		if bytes.HasPrefix(o, []byte("?OTR:AAMD")) || bytes.HasPrefix(o, []byte("?OTR:AAID")) {
			return true
		}
	}
	return false
}

func actedEvents(r *CallResult) []string {
	var out []string
	for _, e := range r.Events {
		if e.Kind == "smp" || e.Kind == "sec" || e.Kind == "key" {
			out = append(out, e.Kind+":"+e.Name)
		}
	}
	return out
}

// awAlphabet: mostly plain texts; sometimes one with a NUL byte and TLV-looking bytes behind it.
func awAlphabet(r *PRNG) int {
	if r.Chance(1, 12) {
		return 6
	}
	return 0
}
