package refotr

import (
	"crypto/aes"
	"crypto/cipher"
	"crypto/dsa"
	"crypto/hmac"
	"crypto/sha1"
	"crypto/sha256"
	"errors"
	"io"
	"math/big"
)

// ---------------------------------------------------------------------------
// AKE key derivation
// ---------------------------------------------------------------------------

// AKEKeys are the values derived from the AKE shared secret s = g^xy:
//
//	secbytes = MPI(s);  h2(b) = SHA-256(b || secbytes)
//	SSID = h2(0x00)[:8];  c || c' = h2(0x01) (16 bytes each)
//	m1 = h2(0x02); m2 = h2(0x03); m1' = h2(0x04); m2' = h2(0x05)
type AKEKeys struct {
	SSID [8]byte
	C    []byte // 16 bytes
	Cp   []byte // 16 bytes (c')
	M1   []byte // 32 bytes
	M2   []byte
	M1p  []byte // m1'
	M2p  []byte // m2'
}

func h2(b byte, secbytes []byte) []byte {
	h := sha256.New()
	h.Write([]byte{b})
	h.Write(secbytes)
	return h.Sum(nil)
}

// DeriveAKEKeys computes all AKE keys from s.
func DeriveAKEKeys(s *big.Int) AKEKeys {
	sec := MPIBytes(s)
	var k AKEKeys
	copy(k.SSID[:], h2(0x00, sec)[:8])
	cc := h2(0x01, sec)
	k.C = cc[:16:16]
	k.Cp = cc[16:32:32]
	k.M1 = h2(0x02, sec)
	k.M2 = h2(0x03, sec)
	k.M1p = h2(0x04, sec)
	k.M2p = h2(0x05, sec)
	return k
}

// ---------------------------------------------------------------------------
// Data-message key derivation
// ---------------------------------------------------------------------------

// DataKeys are the keys of one (our DH key, their DH key) pairing.
type DataKeys struct {
	SendAES []byte // 16
	RecvAES []byte // 16
	SendMAC []byte // 20
	RecvMAC []byte // 20
	Extra   []byte // 32, extra symmetric key
}

// DeriveDataKeys: secbytes = MPI(theirPub^ourPriv mod p). We are the "high"
// end iff ourPub > theirPub: then sendbyte = 0x01, recvbyte = 0x02, otherwise
// the reverse. AES key = SHA-1(byte || secbytes)[:16]; MAC key =
// SHA-1(AES key); extra symmetric key = SHA-256(0xff || secbytes).
func DeriveDataKeys(ourPriv, ourPub, theirPub *big.Int) DataKeys {
	sec := MPIBytes(Exp(theirPub, ourPriv))
	sendByte, recvByte := byte(0x02), byte(0x01)
	if ourPub.Cmp(theirPub) > 0 {
		sendByte, recvByte = 0x01, 0x02
	}
	h1 := func(b byte) []byte {
		h := sha1.New()
		h.Write([]byte{b})
		h.Write(sec)
		return h.Sum(nil)
	}
	var k DataKeys
	k.SendAES = h1(sendByte)[:16:16]
	k.RecvAES = h1(recvByte)[:16:16]
	sm := sha1.Sum(k.SendAES)
	rm := sha1.Sum(k.RecvAES)
	k.SendMAC = sm[:]
	k.RecvMAC = rm[:]
	e := sha256.New()
	e.Write([]byte{0xff})
	e.Write(sec)
	k.Extra = e.Sum(nil)
	return k
}

// AESCTR en/decrypts a data-message payload: AES-128 in counter mode with
// initial counter block = topHalf || 8 zero bytes.
func AESCTR(key []byte, topHalf [8]byte, in []byte) []byte {
	var iv [16]byte
	copy(iv[:8], topHalf[:])
	return aesctr(key, iv[:], in)
}

// AESCTRZero en/decrypts with an all-zero initial counter (AKE messages).
func AESCTRZero(key, in []byte) []byte {
	var iv [16]byte
	return aesctr(key, iv[:], in)
}

func aesctr(key, iv, in []byte) []byte {
	blk, err := aes.NewCipher(key)
	if err != nil {
		panic("refotr: bad AES key length")
	}
	out := make([]byte, len(in))
	cipher.NewCTR(blk, iv).XORKeyStream(out, in)
	return out
}

// DataMAC = HMAC-SHA1_mk(authBytes), 20 bytes.
func DataMAC(macKey []byte, authBytes []byte) []byte {
	h := hmac.New(sha1.New, macKey)
	h.Write(authBytes)
	return h.Sum(nil)
}

// HMAC256 = HMAC-SHA256_key(data), 32 bytes.
func HMAC256(key, data []byte) []byte {
	h := hmac.New(sha256.New, key)
	h.Write(data)
	return h.Sum(nil)
}

// ---------------------------------------------------------------------------
// DSA long-term keys
// ---------------------------------------------------------------------------

// PubKeyBytes serialises PUBKEY: SHORT type 0x0000, MPI p, q, g, y.
func PubKeyBytes(pub *dsa.PublicKey) []byte {
	b := PutShort(nil, 0)
	b = PutMPI(b, pub.P)
	b = PutMPI(b, pub.Q)
	b = PutMPI(b, pub.G)
	b = PutMPI(b, pub.Y)
	return b
}

// ErrPubKey is set on the Reader by ParsePubKey for unacceptable keys.
var ErrPubKey = errors.New("refotr: bad public key")

// ParsePubKey strictly reads a PUBKEY. Besides the encoding it requires the
// key type to be 0x0000 (DSA), q to be 160 bits (SIG is 2x20 bytes) and
// 1 < g < p, 0 < y < p. On failure r.Err is set and nil is returned.
func ParsePubKey(r *Reader) *dsa.PublicKey {
	t := r.Short()
	if r.Err != nil {
		return nil
	}
	if t != 0 {
		r.Err = ErrPubKey
		return nil
	}
	pub := &dsa.PublicKey{}
	pub.P = r.MPI()
	pub.Q = r.MPI()
	pub.G = r.MPI()
	pub.Y = r.MPI()
	if r.Err != nil {
		return nil
	}
	if pub.Q.BitLen() != 160 || pub.P.BitLen() < 160 ||
		pub.G.Cmp(one) <= 0 || pub.G.Cmp(pub.P) >= 0 ||
		pub.Y.Sign() <= 0 || pub.Y.Cmp(pub.P) >= 0 {
		r.Err = ErrPubKey
		return nil
	}
	return pub
}

// Fingerprint = SHA-1 of the PUBKEY serialisation without the leading type
// SHORT (for DSA keys).
func Fingerprint(pub *dsa.PublicKey) []byte {
	s := sha1.Sum(PubKeyBytes(pub)[2:])
	return s[:]
}

// Sign produces SIG = r || s, each left-padded to 20 bytes. m (the 32-byte
// M_B / M_A) is handed to DSA as the "hash" unchanged and not hashed again.
// Go's crypto/dsa does not truncate: it uses the whole value as an integer,
// which is equivalent to taking it modulo q - the behaviour of libotr.
//
// Determinism: crypto/dsa.Sign performs, with probability 1/2 drawn from a
// source the caller cannot control, one extra 1-byte read on the supplied
// reader ("MaybeReadByte"). To keep the randomness consumed from rnd a pure
// function of the inputs, rnd is wrapped: 1-byte reads are answered with a
// constant and do not touch rnd; all other reads (DSA draws its 20-byte
// nonce candidates in one read each) are served in full from rnd. This
// requires GODEBUG cryptocustomrand=1 (set in go.mod) for the reader to be
// honoured at all.
func Sign(priv *dsa.PrivateKey, rnd io.Reader, m []byte) ([]byte, error) {
	r, s, err := dsa.Sign(signReader{rnd}, priv, m)
	if err != nil {
		return nil, err
	}
	if r.BitLen() > 160 || s.BitLen() > 160 {
		return nil, errors.New("refotr: signature component exceeds 160 bits")
	}
	sig := make([]byte, 40)
	r.FillBytes(sig[:20])
	s.FillBytes(sig[20:])
	return sig, nil
}

// signReader neutralises crypto/dsa's nondeterministic 1-byte probe read.
type signReader struct{ R io.Reader }

func (s signReader) Read(p []byte) (int, error) {
	if len(p) == 1 {
		p[0] = 0
		return 1, nil
	}
	return io.ReadFull(s.R, p)
}

// Verify checks a 40-byte SIG over m.
func Verify(pub *dsa.PublicKey, m, sig []byte) bool {
	if len(sig) != 40 {
		return false
	}
	r := new(big.Int).SetBytes(sig[:20])
	s := new(big.Int).SetBytes(sig[20:])
	return dsa.Verify(pub, m, r, s)
}

// RandMPI reads n bytes from rnd and interprets them as a big-endian integer.
func RandMPI(rnd io.Reader, n int) (*big.Int, error) {
	b := make([]byte, n)
	if _, err := io.ReadFull(rnd, b); err != nil {
		return nil, err
	}
	return new(big.Int).SetBytes(b), nil
}

// DHPair is a Diffie-Hellman key pair.
type DHPair struct {
	Priv *big.Int
	Pub  *big.Int
}

// NewDHPair draws a 320-bit private exponent (40 random bytes, big-endian)
// and computes the public value g^x.
func NewDHPair(rnd io.Reader) (DHPair, error) {
	x, err := RandMPI(rnd, DHSecretLen)
	if err != nil {
		return DHPair{}, err
	}
	return DHPair{Priv: x, Pub: Exp(G, x)}, nil
}
