package refotr_test

import (
	"bytes"
	"math/big"
	"reflect"
	"testing"

	. "verifsim/refotr"
)

func TestReaderStrictness(t *testing.T) {
	// Minimal MPI round trip; zero is length 0.
	for _, v := range []int64{0, 1, 127, 128, 255, 256, 65535, 1 << 40} {
		b := PutMPI(nil, big.NewInt(v))
		r := &Reader{B: b}
		got := r.MPI()
		if !r.Done() || got.Int64() != v {
			t.Fatalf("MPI %d: got %v done=%v err=%v", v, got, r.Done(), r.Err)
		}
	}
	if !bytes.Equal(PutMPI(nil, big.NewInt(0)), []byte{0, 0, 0, 0}) {
		t.Fatal("zero MPI must have length 0")
	}
	// Leading zero: strict rejects, loose accepts.
	nm := []byte{0, 0, 0, 2, 0, 5}
	r := &Reader{B: nm}
	if r.MPI(); r.Err == nil {
		t.Fatal("strict MPI accepted a leading zero")
	}
	r = &Reader{B: nm}
	if v := r.MPILoose(); r.Err != nil || v.Int64() != 5 || !r.Done() {
		t.Fatal("loose MPI rejected a leading zero")
	}
	// Truncation is sticky.
	r = &Reader{B: []byte{0, 0, 0, 9, 1}}
	r.Data()
	if r.Err == nil || r.Done() {
		t.Fatal("truncated DATA accepted")
	}
	if r.Int() != 0 || r.Byte() != 0 || r.Short() != 0 || r.Err == nil {
		t.Fatal("error is not sticky")
	}
	// Huge length must not panic or allocate.
	r = &Reader{B: []byte{0xff, 0xff, 0xff, 0xff, 1, 2}}
	if r.Data(); r.Err == nil {
		t.Fatal("oversized DATA accepted")
	}
	// Group constants.
	if P.BitLen() != 1536 || G.Int64() != 2 || new(big.Int).Add(new(big.Int).Lsh(Q, 1), big.NewInt(1)).Cmp(P) != 0 {
		t.Fatal("group constants wrong")
	}
	if !P.ProbablyPrime(8) || !Q.ProbablyPrime(8) {
		t.Fatal("p or q not prime")
	}
	if new(big.Int).Exp(G, Q, P).Int64() != 1 {
		t.Fatal("g does not have order q")
	}
	pm1 := new(big.Int).Sub(P, big.NewInt(1))
	pm2 := new(big.Int).Sub(P, big.NewInt(2))
	for _, c := range []struct {
		v  *big.Int
		ok bool
	}{{big.NewInt(0), false}, {big.NewInt(1), false}, {big.NewInt(2), true}, {pm2, true}, {pm1, false}, {P, false}} {
		if InRange(c.v) != c.ok {
			t.Fatalf("InRange(%v) != %v", c.v, c.ok)
		}
	}
}

func sampleMessages(version uint16) []interface{} {
	h := func(t byte) Header {
		hd := Header{Version: version, Type: t}
		if version == 3 {
			hd.SenderTag, hd.ReceiverTag = 0x12345678, 0x00000100
		}
		return hd
	}
	gx := new(big.Int).Exp(G, big.NewInt(0x1234567), P)
	r := bytes.Repeat([]byte{7}, 16)
	mac := bytes.Repeat([]byte{0xab}, 20)
	c := MakeDHCommit(h(TypeDHCommit), gx, r)
	d := &Data{Header: h(TypeData), Flags: 1, SenderKeyID: 3, RecipientKeyID: 9, NextDH: gx,
		Ctr: [8]byte{0, 0, 0, 0, 0, 0, 0, 5}, Enc: []byte("ciphertext"), MAC: mac, OldMACKeys: bytes.Repeat([]byte{1}, 40)}
	d0 := &Data{Header: h(TypeData), NextDH: big.NewInt(2), Enc: []byte{}, MAC: mac, OldMACKeys: []byte{}}
	return []interface{}{
		c,
		&DHKey{Header: h(TypeDHKey), Gy: gx},
		&RevealSig{Header: h(TypeRevealSig), R: r, EncSig: []byte("encrypted sig"), MAC: mac},
		&Signature{Header: h(TypeSignature), EncSig: []byte("encrypted sig 2"), MAC: mac},
		d, d0,
	}
}

// Test 1: build -> Raw -> ParseRaw -> Raw identical, for every message type.
func TestRoundTripAllTypes(t *testing.T) {
	for _, version := range []uint16{2, 3} {
		for _, m := range sampleMessages(version) {
			raw := RawOf(m)
			if raw == nil {
				t.Fatalf("RawOf(%T) = nil", m)
			}
			got, err := ParseRaw(raw)
			if err != nil {
				t.Fatalf("v%d %T: ParseRaw: %v", version, m, err)
			}
			if reflect.TypeOf(got) != reflect.TypeOf(m) {
				t.Fatalf("v%d: parsed %T, want %T", version, got, m)
			}
			if !bytes.Equal(RawOf(got), raw) {
				t.Fatalf("v%d %T: re-serialisation differs", version, m)
			}
			if HeaderOf(got) != HeaderOf(m) {
				t.Fatalf("v%d %T: header differs", version, m)
			}
			// Armour round trip.
			arm := Armor(raw)
			got2, err := ParseArmored(arm)
			if err != nil || !bytes.Equal(RawOf(got2), raw) {
				t.Fatalf("v%d %T: armoured round trip: %v", version, m, err)
			}
			// Strictness: a trailing byte and every truncation must fail.
			if _, err := ParseRaw(append(append([]byte{}, raw...), 0)); err == nil {
				t.Fatalf("v%d %T: trailing byte accepted", version, m)
			}
			for i := 0; i < len(raw); i++ {
				if _, err := ParseRaw(raw[:i]); err == nil {
					t.Fatalf("v%d %T: truncation to %d bytes accepted", version, m, i)
				}
			}
		}
	}
}

func TestParseRawRejects(t *testing.T) {
	h3 := Header{Version: 3, SenderTag: 0x100, ReceiverTag: 0x101}
	mac := make([]byte, 20)
	mk := func(f func() []byte) []byte { return f() }
	cases := map[string][]byte{
		"version 1": (&DHKey{Header: Header{Version: 1, Type: TypeDHKey}, Gy: big.NewInt(5)}).Raw(),
		"version 4": mk(func() []byte {
			b := (&DHKey{Header: Header{Version: 3, Type: TypeDHKey}, Gy: big.NewInt(5)}).Raw()
			b[1] = 4
			return b
		}),
		"unknown type": mk(func() []byte {
			hh := h3
			hh.Type = 0x55
			return hh.Bytes()
		}),
		"hash 31": mk(func() []byte {
			hh := h3
			hh.Type = TypeDHCommit
			return (&DHCommit{Header: hh, EncGx: []byte{1}, HashGx: make([]byte, 31)}).Raw()
		}),
		"r 15": mk(func() []byte {
			hh := h3
			hh.Type = TypeRevealSig
			return (&RevealSig{Header: hh, R: make([]byte, 15), EncSig: []byte{1}, MAC: mac}).Raw()
		}),
		"mac 19 sig": mk(func() []byte {
			hh := h3
			hh.Type = TypeSignature
			return (&Signature{Header: hh, EncSig: []byte{1}, MAC: mac[:19]}).Raw()
		}),
		"oldmac 21": mk(func() []byte {
			hh := h3
			hh.Type = TypeData
			return (&Data{Header: hh, NextDH: big.NewInt(5), MAC: mac, OldMACKeys: make([]byte, 21)}).Raw()
		}),
		"non-minimal MPI": mk(func() []byte {
			hh := h3
			hh.Type = TypeDHKey
			return append(hh.Bytes(), 0, 0, 0, 2, 0, 9)
		}),
		"data trailing": mk(func() []byte {
			hh := h3
			hh.Type = TypeData
			return (&Data{Header: hh, NextDH: big.NewInt(5), MAC: mac, Trailing: []byte{1}}).Raw()
		}),
	}
	for _, name := range []string{"version 1", "version 4", "unknown type", "hash 31", "r 15", "mac 19 sig", "oldmac 21", "non-minimal MPI", "data trailing"} {
		if _, err := ParseRaw(cases[name]); err == nil {
			t.Errorf("%s: accepted", name)
		}
	}
}

func TestDearmorStrict(t *testing.T) {
	good := Armor([]byte{0, 3, 0x0a, 1, 2, 3, 4})
	if _, err := Dearmor(good); err != nil {
		t.Fatal(err)
	}
	bad := [][]byte{
		good[1:],
		good[:len(good)-1],
		append(append([]byte{}, good...), '.'),
		[]byte("?OTR:AAM\n=."),
		[]byte("?OTR:AAM."),  // unpadded
		[]byte("?OTR:AAN=."), // non-canonical trailing bits
		[]byte("?OTR:A-M=."),
		[]byte("?OTR: AAM=."),
	}
	for _, b := range bad {
		if _, err := Dearmor(b); err == nil {
			t.Errorf("Dearmor(%q) accepted", b)
		}
	}
}

func TestPlainTLV(t *testing.T) {
	tlvs := []TLV{{Type: 0, Value: []byte{0, 0, 0}}, {Type: 8, Value: []byte{0, 0, 0, 1, 'x'}}, {Type: 1, Value: []byte{}}}
	p := BuildPlain([]byte("hello"), tlvs)
	text, got, err := ParsePlain(p)
	if err != nil || string(text) != "hello" || len(got) != 3 {
		t.Fatalf("ParsePlain: %v %q %v", err, text, got)
	}
	for i := range tlvs {
		if got[i].Type != tlvs[i].Type || !bytes.Equal(got[i].Value, tlvs[i].Value) {
			t.Fatalf("TLV %d differs", i)
		}
	}
	if !bytes.Equal(BuildPlain([]byte("x"), nil), []byte("x")) || !bytes.Equal(BuildPlainNul([]byte("x"), nil), []byte("x\x00")) {
		t.Fatal("BuildPlain/BuildPlainNul without TLVs")
	}
	if _, tl, err := ParsePlain([]byte("x\x00")); err != nil || len(tl) != 0 {
		t.Fatal("NUL without TLVs must parse")
	}
	for i := len("hello") + 2; i < len(p); i++ {
		if _, _, err := ParsePlain(p[:i]); err == nil && i != len("hello")+1+7 && i != len("hello")+1+7+9 {
			t.Fatalf("truncated TLV at %d accepted", i)
		}
	}
}

func TestQueryAndWhitespace(t *testing.T) {
	cases := []struct {
		in   string
		want []int
		ok   bool
	}{
		{"?OTR?", []int{1}, true},
		{"?OTRv2?", []int{2}, true},
		{"?OTRv23?", []int{2, 3}, true},
		{"?OTR?v2?", []int{1, 2}, true},
		{"?OTRv?", nil, true},
		{"?OTRv3? please use OTR", []int{3}, true},
		{"hello ?OTRv23x? there", []int{2, 3}, true},
		{"?OTRv23", nil, false},
		{"?OTR:AAM=.", nil, false},
		{"?OTR Error: x", nil, false},
		{"plain", nil, false},
	}
	for _, c := range cases {
		got, ok := ParseQuery([]byte(c.in))
		if ok != c.ok || (ok && !reflect.DeepEqual(got, c.want) && !(len(got) == 0 && len(c.want) == 0)) {
			t.Errorf("ParseQuery(%q) = %v,%v want %v,%v", c.in, got, ok, c.want, c.ok)
		}
	}
	if string(BuildQuery("23")) != "?OTRv23?" || string(BuildQueryV1("")) != "?OTR?" || string(BuildQueryV1("2")) != "?OTR?v2?" {
		t.Fatal("BuildQuery")
	}
	tag := WhitespaceTag(true, true)
	if len(tag) != 32 {
		t.Fatalf("tag length %d", len(tag))
	}
	msg := append([]byte("hi there"), tag...)
	msg = append(msg, " bye"...)
	stripped, vs, found := FindWhitespaceTag(msg)
	if !found || string(stripped) != "hi there bye" || !reflect.DeepEqual(vs, []int{2, 3}) {
		t.Fatalf("FindWhitespaceTag: %q %v %v", stripped, vs, found)
	}
	if _, _, found := FindWhitespaceTag([]byte("nothing here")); found {
		t.Fatal("false positive whitespace tag")
	}
	_, vs, _ = FindWhitespaceTag([]byte(WhitespaceBase + WhitespaceV1 + WhitespaceV3))
	if !reflect.DeepEqual(vs, []int{1, 3}) {
		t.Fatalf("v1+v3 tag: %v", vs)
	}
}

func TestFragmentRoundTrip(t *testing.T) {
	msg := Armor(bytes.Repeat([]byte("0123456789"), 50))
	for _, version := range []uint16{2, 3} {
		for _, n := range []int{1, 7, 100, len(msg), len(msg) + 5} {
			frags := Fragment(version, 0x1234abcd, 0x100, msg, n)
			if len(frags) != (len(msg)+n-1)/n {
				t.Fatalf("fragment count %d", len(frags))
			}
			var r Reassembler
			var whole []byte
			for i, f := range frags {
				fi, err := ParseFragment(f)
				if err != nil {
					t.Fatalf("ParseFragment: %v (%q)", err, f)
				}
				if fi.V3 != (version == 3) || fi.K != i+1 || fi.N != len(frags) {
					t.Fatalf("bad frag info %+v", fi)
				}
				if version == 3 && (fi.SenderTag != 0x1234abcd || fi.ReceiverTag != 0x100) {
					t.Fatalf("bad tags %+v", fi)
				}
				if whole != nil {
					t.Fatal("completed early")
				}
				whole = r.Add(fi.K, fi.N, fi.Piece)
			}
			if !bytes.Equal(whole, msg) || r.K != 0 || r.N != 0 || r.Buf != nil {
				t.Fatalf("reassembly failed v%d n=%d", version, n)
			}
		}
	}
	if string(Fragment(3, 0x100, 0x200, []byte("abcdef"), 4)[1]) != "?OTR|00000100|00000200,00002,00002,ef," {
		t.Fatal("v3 fragment format")
	}
	if string(Fragment(2, 0, 0, []byte("abcdef"), 4)[0]) != "?OTR,00001,00002,abcd," {
		t.Fatal("v2 fragment format")
	}
	for _, bad := range []string{
		"?OTR,1,2,abc,", "?OTR,00001,00002,abc", "?OTR,00001,00002,a,b,",
		"?OTR|0000100|00000200,00001,00002,ab,", "?OTR|0000010g|00000200,00001,00002,ab,",
		"?OTR,00001,70000,ab,", "?OTR:00001,00002,ab,", "?OTR|00000100,00000200,00001,00002,ab,",
	} {
		if _, err := ParseFragment([]byte(bad)); err == nil {
			t.Errorf("ParseFragment(%q) accepted", bad)
		}
	}
}

func TestReassemblerRule(t *testing.T) {
	var r Reassembler
	add := func(k, n int, s string) string { return string(r.Add(k, n, []byte(s))) }
	// In-order.
	if add(1, 3, "a") != "" || add(2, 3, "b") != "" || add(3, 3, "c") != "abc" {
		t.Fatal("in-order")
	}
	// Out of order forgets everything.
	add(1, 3, "a")
	if add(3, 3, "c") != "" || r.K != 0 || r.N != 0 {
		t.Fatal("out-of-order must forget")
	}
	if add(2, 3, "b") != "" || r.K != 0 {
		t.Fatal("continuation after forget must be dropped")
	}
	// k == 1 restarts.
	add(1, 3, "x")
	add(2, 3, "y")
	add(1, 2, "p")
	if r.K != 1 || r.N != 2 || add(2, 2, "q") != "pq" {
		t.Fatal("restart")
	}
	// n mismatch forgets.
	add(1, 3, "a")
	if add(2, 4, "b") != "" || r.K != 0 {
		t.Fatal("n mismatch")
	}
	// Invalid k/n are ignored and keep state.
	add(1, 3, "a")
	add(2, 3, "b")
	for _, kn := range [][2]int{{0, 3}, {3, 0}, {4, 3}, {0, 0}} {
		if add(kn[0], kn[1], "z") != "" || r.K != 2 || r.N != 3 {
			t.Fatalf("invalid fragment %v changed state", kn)
		}
	}
	if add(3, 3, "c") != "abc" {
		t.Fatal("state lost")
	}
	// Duplicate forgets.
	add(1, 2, "a")
	if add(1, 2, "A") != "" || r.K != 1 || string(r.Buf) != "A" {
		t.Fatal("duplicate k=1 restarts")
	}
	// Single fragment.
	if add(1, 1, "solo") != "solo" {
		t.Fatal("single")
	}
}

func TestSMPMessagesRoundTrip(t *testing.T) {
	v := func(i int64) *big.Int { return big.NewInt(1000 + i) }
	m1 := &SMP1{G2a: v(1), C2: v(2), D2: v(3), G3a: v(4), C3: v(5), D3: v(6)}
	m1q := &SMP1{G2a: v(1), C2: v(2), D2: v(3), G3a: v(4), C3: v(5), D3: v(6), Question: []byte("why?"), HasQuestion: true}
	m2 := &SMP2{v(1), v(2), v(3), v(4), v(5), v(6), v(7), v(8), v(9), v(10), v(11)}
	m3 := &SMP3{v(1), v(2), v(3), v(4), v(5), v(6), v(7), v(8)}
	m4 := &SMP4{v(1), v(2), v(3)}

	g1, err := ParseSMP1(m1.TLV())
	if err != nil || !reflect.DeepEqual(g1.TLV(), m1.TLV()) || m1.TLV().Type != 2 {
		t.Fatal("SMP1", err)
	}
	g1q, err := ParseSMP1(m1q.TLV())
	if err != nil || !reflect.DeepEqual(g1q.TLV(), m1q.TLV()) || m1q.TLV().Type != 7 || string(g1q.Question) != "why?" {
		t.Fatal("SMP1Q", err)
	}
	g2, err := ParseSMP2(m2.TLV())
	if err != nil || !reflect.DeepEqual(g2, m2) || m2.TLV().Type != 3 {
		t.Fatal("SMP2", err)
	}
	g3, err := ParseSMP3(m3.TLV())
	if err != nil || !reflect.DeepEqual(g3, m3) || m3.TLV().Type != 4 {
		t.Fatal("SMP3", err)
	}
	g4, err := ParseSMP4(m4.TLV())
	if err != nil || !reflect.DeepEqual(g4, m4) || m4.TLV().Type != 5 {
		t.Fatal("SMP4", err)
	}
	// Strictness: wrong count, trailing bytes, wrong type.
	bad := m4.TLV()
	bad.Value = append(bad.Value, 0)
	if _, err := ParseSMP4(bad); err == nil {
		t.Fatal("trailing byte accepted")
	}
	bad = m3.TLV()
	bad.Type = 5
	if _, err := ParseSMP4(bad); err == nil {
		t.Fatal("wrong count accepted")
	}
	if _, err := ParseSMP2(m3.TLV()); err == nil {
		t.Fatal("wrong type accepted")
	}
	if _, err := ParseSMP1(TLV{Type: 7, Value: []byte("no terminator")}); err == nil {
		t.Fatal("unterminated question accepted")
	}
}
