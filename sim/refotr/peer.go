package refotr

import (
	"crypto/dsa"
	"crypto/hmac"
	"encoding/binary"
	"errors"
	"fmt"
	"io"
	"math/big"
)

// AKE states (spec: AUTHSTATE_*).
const (
	AuthNone = iota
	AuthAwaitingDHKey
	AuthAwaitingRevealSig
	AuthAwaitingSig
)

// CheckError is returned by Peer.Receive when a message is not accepted.
// Check is a short stable identifier of the first failed check. Ignored is
// true when the spec says to silently ignore the message in the current
// state (as opposed to the message being malformed or failing validation).
// In both cases the Peer's state is unchanged.
type CheckError struct {
	Check   string
	Detail  string
	Ignored bool
}

func (e *CheckError) Error() string {
	kind := "rejected"
	if e.Ignored {
		kind = "ignored"
	}
	if e.Detail == "" {
		return "refotr: " + kind + ": " + e.Check
	}
	return "refotr: " + kind + ": " + e.Check + ": " + e.Detail
}

func reject(check string, format string, a ...interface{}) error {
	return &CheckError{Check: check, Detail: fmt.Sprintf(format, a...)}
}

func ignore(check string, format string, a ...interface{}) error {
	return &CheckError{Check: check, Detail: fmt.Sprintf(format, a...), Ignored: true}
}

// UsedKey records a receiving MAC key that verified at least one message,
// with the key ids of the pairing it belongs to.
type UsedKey struct {
	OurID, TheirID uint32
	Key            []byte
}

// Delivery is one accepted incoming message.
type Delivery struct {
	Text      []byte
	TLVs      []TLV
	Flags     byte
	ExtraKey  []byte // extra symmetric key of the pairing the message used
	Encrypted bool   // false for plaintext (non-OTR) messages
	// Key ids and counter of the data message (zero for plaintext).
	SenderKeyID, RecipientKeyID uint32
	Ctr                         uint64
}

// Peer is a complete single-conversation protocol participant speaking
// exactly one protocol version. All state is exported.
type Peer struct {
	Version  uint16
	Priv     *dsa.PrivateKey
	Rand     io.Reader
	OurTag   uint32 // v3 instance tag (ignored for v2)
	TheirTag uint32 // learnt from the first accepted message; 0 = unknown

	// --- AKE ---
	AuthState     int
	X, Gx         *big.Int  // our AKE DH pair (x for the initiator, y for the responder)
	R             []byte    // initiator: the AES key r of our DH-Commit
	OurCommit     *DHCommit // initiator: the DH-Commit we sent (for retransmission)
	PeerCommit    *DHCommit // responder: the DH-Commit we answered
	TheirG        *big.Int  // peer's AKE DH value once known
	AKE           AKEKeys
	LastRevealSig []byte // armoured Reveal-Signature, for retransmission

	// --- encrypted session ---
	Encrypted bool
	Finished  bool // peer sent a "disconnected" TLV
	SSID      [8]byte
	TheirPub  *dsa.PublicKey
	Initiator bool // true if we sent Reveal-Signature (we were "Bob")

	OurKeyID   uint32 // serial of OurCur; OurPrev has OurKeyID-1
	OurPrev    DHPair
	OurCur     DHPair
	TheirKeyID uint32   // serial of TheirCur; TheirPrev has TheirKeyID-1
	TheirPrev  *big.Int // nil if none
	TheirCur   *big.Int

	// Counters (top half, as uint64) keyed by (our key id, their key id).
	// The maps are only looked up, never iterated.
	SendCtr map[[2]uint32]uint64
	RecvCtr map[[2]uint32]uint64

	UsedRecvMAC   []UsedKey // receiving MAC keys that verified a message
	PendingOldMAC []byte    // MAC keys to reveal in the next data message

	SMP  SMPState
	Frag Reassembler
	// ForgetFragmentsOnWholeMessage: drop a partly collected message when a non-fragment arrives (set by shadows of otr3)
	ForgetFragmentsOnWholeMessage bool

	Inbox      []Delivery
	PeerErrors [][]byte // "?OTR Error:" messages received
	Log        []string
}

// NewPeer creates a peer for one protocol version (2 or 3).
func NewPeer(version uint16, priv *dsa.PrivateKey, rnd io.Reader, ourTag uint32) *Peer {
	return &Peer{
		Version: version,
		Priv:    priv,
		Rand:    rnd,
		OurTag:  ourTag,
		SendCtr: map[[2]uint32]uint64{},
		RecvCtr: map[[2]uint32]uint64{},
		SMP:     SMPState{State: SMPExpect1},
	}
}

func (p *Peer) logf(format string, a ...interface{}) {
	p.Log = append(p.Log, fmt.Sprintf(format, a...))
}

func (p *Peer) hdr(t byte) Header {
	h := Header{Version: p.Version, Type: t}
	if p.Version >= 3 {
		h.SenderTag, h.ReceiverTag = p.OurTag, p.TheirTag
	}
	return h
}

// Query returns the query message offering exactly our version.
func (p *Peer) Query() []byte {
	return BuildQuery(fmt.Sprintf("%d", p.Version))
}

// StartAKE begins an AKE as initiator ("Bob"): draws x (40 bytes) then r
// (16 bytes), and returns the armoured DH-Commit. State: AWAITING_DHKEY.
func (p *Peer) StartAKE() ([]byte, error) {
	pair, err := NewDHPair(p.Rand)
	if err != nil {
		return nil, err
	}
	r := make([]byte, 16)
	if _, err := io.ReadFull(p.Rand, r); err != nil {
		return nil, err
	}
	p.X, p.Gx, p.R = pair.Priv, pair.Pub, r
	p.OurCommit = MakeDHCommit(p.hdr(TypeDHCommit), p.Gx, r)
	p.PeerCommit, p.TheirG, p.LastRevealSig = nil, nil, nil
	p.AuthState = AuthAwaitingDHKey
	p.logf("ake: sent DH-Commit")
	return Armor(p.OurCommit.Raw()), nil
}

// Receive processes one incoming transport message: an armoured OTR
// message, a fragment, a query, a whitespace-tagged or plain message, or an
// OTR error. It returns the messages to send in reply.
//
// If the message is not accepted the error is a *CheckError naming the
// first failed check, and the Peer's state is unchanged (random bytes may
// have been consumed from Rand).
func (p *Peer) Receive(msg []byte) (out [][]byte, err error) {
	if p.ForgetFragmentsOnWholeMessage && !IsFragment(msg) && !p.fromOrForAnotherInstance(msg) {
		// The specification does not say what happens to a partly collected message when
		// something that is not a fragment arrives. libotr and otr3 drop it (otr3 pins that with a
		// test); a Peer that shadows otr3 follows. A message from or for another instance is not
		// part of the conversation and changes nothing.
		p.Frag = Reassembler{}
	}
	switch {
	case IsFragment(msg):
		return p.receiveFragment(msg)
	case IsArmored(msg):
		m, err := ParseArmored(msg)
		if err != nil {
			return nil, reject("parse", "%v", err)
		}
		return p.ReceiveParsed(m)
	case IsError(msg):
		p.PeerErrors = append(p.PeerErrors, append([]byte{}, msg...))
		p.logf("peer error: %q", msg)
		return nil, nil
	}
	if versions, ok := ParseQuery(msg); ok {
		return p.answerOffer(versions, "query")
	}
	if stripped, versions, found := FindWhitespaceTag(msg); found {
		// The tagged message is a plaintext message in its own right: it is
		// delivered (without the tag) whether or not we take up the offer.
		p.Inbox = append(p.Inbox, Delivery{Text: stripped})
		out, err := p.answerOffer(versions, "whitespace-tag")
		var ce *CheckError
		if errors.As(err, &ce) && ce.Ignored {
			return nil, nil
		}
		return out, err
	}
	p.Inbox = append(p.Inbox, Delivery{Text: append([]byte{}, msg...)})
	return nil, nil
}

func (p *Peer) answerOffer(versions []int, what string) ([][]byte, error) {
	for _, v := range versions {
		if v == int(p.Version) {
			c, err := p.StartAKE()
			if err != nil {
				return nil, err
			}
			return [][]byte{c}, nil
		}
	}
	return nil, ignore("offer-version", "%s does not offer version %d", what, p.Version)
}

// fromOrForAnotherInstance: an armoured version 3 message whose sender tag is not the peer's
// (once known) or whose receiver tag is neither zero nor ours.
func (p *Peer) fromOrForAnotherInstance(msg []byte) bool {
	if p.Version < 3 || !IsArmored(msg) {
		return false
	}
	raw, err := Dearmor(msg)
	if err != nil || len(raw) < 11 || raw[0] != 0 || raw[1] != 3 {
		return false
	}
	st := uint32(raw[3])<<24 | uint32(raw[4])<<16 | uint32(raw[5])<<8 | uint32(raw[6])
	rt := uint32(raw[7])<<24 | uint32(raw[8])<<16 | uint32(raw[9])<<8 | uint32(raw[10])
	return (p.TheirTag != 0 && st != p.TheirTag) || (rt != 0 && rt != p.OurTag)
}

// receiveFragment applies the v3 instance-tag filter and the reassembly
// rule; a completed message is processed like any other.
func (p *Peer) receiveFragment(msg []byte) ([][]byte, error) {
	f, err := ParseFragmentLenient(msg)
	if err != nil {
		return nil, reject("fragment-parse", "%v", err)
	}
	if f.V3 != (p.Version >= 3) {
		return nil, reject("fragment-version", "fragment format does not match version %d", p.Version)
	}
	if f.V3 {
		// Fragments whose sender tag is not the known peer tag, or whose
		// receiver tag is neither 0 nor ours, are ignored entirely.
		if p.TheirTag != 0 && f.SenderTag != p.TheirTag {
			return nil, ignore("fragment-sender-tag", "%08x is not the peer's tag %08x", f.SenderTag, p.TheirTag)
		}
		if f.ReceiverTag != 0 && f.ReceiverTag != p.OurTag {
			return nil, ignore("fragment-receiver-tag", "%08x is not our tag %08x", f.ReceiverTag, p.OurTag)
		}
	}
	whole := p.Frag.Add(f.K, f.N, f.Piece)
	if whole == nil {
		return nil, nil
	}
	if IsFragment(whole) {
		return nil, reject("fragment-nested", "reassembled message is itself a fragment")
	}
	return p.Receive(whole)
}

// checkHeader enforces the version and (v3) instance-tag rules:
//   - the version must be the one this peer speaks;
//   - the sender tag must be >= 0x100;
//   - the receiver tag must be ours; 0 (unknown) is acceptable only on a
//     DH-Commit;
//   - once the peer's tag is known, the sender tag must equal it.
func (p *Peer) checkHeader(h Header) error {
	if h.Version != p.Version {
		return reject("version", "message version %d, we speak %d", h.Version, p.Version)
	}
	if p.Version < 3 {
		return nil
	}
	if h.SenderTag < MinInstanceTag {
		return reject("sender-tag", "invalid sender instance tag %#x", h.SenderTag)
	}
	// Spec: "discard the message if the recipient's own instance tag does not
	// match the listed receiver instance tag and the listed receiver instance
	// tag is not zero" - a zero receiver tag is acceptable on any message.
	if h.ReceiverTag != p.OurTag && h.ReceiverTag != 0 {
		return reject("receiver-tag", "receiver instance tag %#x is not ours (%#x)", h.ReceiverTag, p.OurTag)
	}
	if p.TheirTag != 0 && h.SenderTag != p.TheirTag {
		return reject("sender-tag-mismatch", "sender instance tag %#x, peer is %#x", h.SenderTag, p.TheirTag)
	}
	return nil
}

func (p *Peer) learnTag(h Header) {
	if p.Version >= 3 && p.TheirTag == 0 {
		p.TheirTag = h.SenderTag
	}
}

// ReceiveParsed processes a message already parsed by ParseRaw.
func (p *Peer) ReceiveParsed(m interface{}) ([][]byte, error) {
	if m == nil {
		return nil, reject("parse", "nil message")
	}
	if err := p.checkHeader(HeaderOf(m)); err != nil {
		return nil, err
	}
	switch v := m.(type) {
	case *DHCommit:
		return p.onDHCommit(v)
	case *DHKey:
		return p.onDHKey(v)
	case *RevealSig:
		return p.onRevealSig(v)
	case *Signature:
		return p.onSignature(v)
	case *Data:
		return p.onData(v)
	}
	return nil, reject("parse", "unknown message value %T", m)
}

// --- AKE -------------------------------------------------------------------

func (p *Peer) onDHCommit(m *DHCommit) ([][]byte, error) {
	// A commit whose hash field is not 32 bytes long can never be opened (the
	// check is made when the Reveal-Signature arrives); the specification does
	// not ask for an earlier rejection, so it is answered like any other.
	switch p.AuthState {
	case AuthAwaitingRevealSig:
		// Retransmit our DH-Key with the same g^y; remember the new commit.
		p.learnTag(m.Header)
		p.PeerCommit = m
		k := &DHKey{Header: p.hdr(TypeDHKey), Gy: p.Gx}
		p.logf("ake: DH-Commit in AWAITING_REVEALSIG: retransmit DH-Key")
		return [][]byte{Armor(k.Raw())}, nil
	case AuthAwaitingDHKey:
		// Collision: compare the hashed g^x values as 32-byte big-endian
		// unsigned numbers. If ours is higher, ignore the incoming commit
		// and resend ours; otherwise forget ours and answer theirs.
		if p.OurCommit != nil && CommitHigher(p.OurCommit.HashGx, m.HashGx) {
			p.logf("ake: DH-Commit collision: ours is higher, resending")
			return [][]byte{Armor(p.OurCommit.Raw())}, nil
		}
		p.logf("ake: DH-Commit collision: theirs is higher, becoming responder")
	}
	// AUTHSTATE_NONE, AWAITING_SIG, or lost collision: reply with a DH-Key
	// for a fresh y.
	pair, err := NewDHPair(p.Rand)
	if err != nil {
		return nil, err
	}
	p.learnTag(m.Header)
	p.X, p.Gx = pair.Priv, pair.Pub
	p.R, p.OurCommit, p.TheirG, p.LastRevealSig = nil, nil, nil, nil
	p.PeerCommit = m
	p.AuthState = AuthAwaitingRevealSig
	k := &DHKey{Header: p.hdr(TypeDHKey), Gy: p.Gx}
	p.logf("ake: sent DH-Key")
	return [][]byte{Armor(k.Raw())}, nil
}

func (p *Peer) onDHKey(m *DHKey) ([][]byte, error) {
	if !InRange(m.Gy) {
		return nil, reject("dhkey-range", "g^y is not in 2..p-2")
	}
	switch p.AuthState {
	case AuthAwaitingDHKey:
		keys := DeriveAKEKeys(Exp(m.Gy, p.X))
		// keyid_B: serial of the DH key used in this AKE = 1.
		xb, err := MakeXBlock(p.Priv, p.Rand, keys.M1, p.Gx, m.Gy, 1)
		if err != nil {
			return nil, err
		}
		enc, mac := SealXBlock(keys.C, keys.M2, xb)
		p.learnTag(m.Header)
		rs := &RevealSig{Header: p.hdr(TypeRevealSig), R: p.R, EncSig: enc, MAC: mac}
		p.TheirG = m.Gy
		p.AKE = keys
		p.LastRevealSig = Armor(rs.Raw())
		p.AuthState = AuthAwaitingSig
		p.logf("ake: sent Reveal-Signature")
		return [][]byte{p.LastRevealSig}, nil
	case AuthAwaitingSig:
		if eq(m.Gy, p.TheirG) {
			p.logf("ake: duplicate DH-Key: retransmit Reveal-Signature")
			return [][]byte{p.LastRevealSig}, nil
		}
		return nil, ignore("dhkey-state", "different DH-Key while AWAITING_SIG")
	}
	return nil, ignore("dhkey-state", "DH-Key not expected in auth state %d", p.AuthState)
}

func (p *Peer) onRevealSig(m *RevealSig) ([][]byte, error) {
	if p.AuthState != AuthAwaitingRevealSig {
		return nil, ignore("revealsig-state", "Reveal-Signature not expected in auth state %d", p.AuthState)
	}
	// Decrypt g^x with r, verify the committed hash and the range.
	gx, err := OpenDHCommit(p.PeerCommit, m.R)
	if err != nil {
		return nil, reject("revealsig-commit", "%v", err)
	}
	keys := DeriveAKEKeys(Exp(gx, p.X))
	// MAC with m2, decrypt with c, verify sig_B(M_B) with m1.
	pub, keyID, err := OpenXBlock(keys.C, keys.M1, keys.M2, m.EncSig, m.MAC, gx, p.Gx)
	if err != nil {
		return nil, reject("revealsig-xblock", "%v", err)
	}
	// Our X_A uses m1', c', m2'.
	xa, err := MakeXBlock(p.Priv, p.Rand, keys.M1p, p.Gx, gx, 1)
	if err != nil {
		return nil, err
	}
	enc, mac := SealXBlock(keys.Cp, keys.M2p, xa)
	next, err := NewDHPair(p.Rand)
	if err != nil {
		return nil, err
	}
	p.learnTag(m.Header)
	p.TheirG = gx
	p.AKE = keys
	p.Initiator = false
	p.goEncrypted(pub, keyID, next)
	sig := &Signature{Header: p.hdr(TypeSignature), EncSig: enc, MAC: mac}
	p.logf("ake: sent Signature; encrypted")
	return [][]byte{Armor(sig.Raw())}, nil
}

func (p *Peer) onSignature(m *Signature) ([][]byte, error) {
	if p.AuthState != AuthAwaitingSig {
		return nil, ignore("signature-state", "Signature not expected in auth state %d", p.AuthState)
	}
	pub, keyID, err := OpenXBlock(p.AKE.Cp, p.AKE.M1p, p.AKE.M2p, m.EncSig, m.MAC, p.TheirG, p.Gx)
	if err != nil {
		return nil, reject("signature-xblock", "%v", err)
	}
	next, err := NewDHPair(p.Rand)
	if err != nil {
		return nil, err
	}
	p.learnTag(m.Header)
	p.Initiator = true
	p.goEncrypted(pub, keyID, next)
	p.logf("ake: received Signature; encrypted")
	return nil, nil
}

// goEncrypted installs the session after a successful AKE: our AKE DH key
// gets keyid 1, a fresh key gets keyid 2 (our_keyid = 2); their_keyid is the
// keyid from the peer's X block, their current key is their AKE DH value and
// there is no previous key. Counters and SMP state are reset. Receiving MAC
// keys used in a previous session are scheduled for disclosure.
func (p *Peer) goEncrypted(pub *dsa.PublicKey, theirKeyID uint32, next DHPair) {
	for _, u := range p.UsedRecvMAC {
		p.PendingOldMAC = append(p.PendingOldMAC, u.Key...)
	}
	p.UsedRecvMAC = nil
	p.Encrypted, p.Finished = true, false
	p.SSID = p.AKE.SSID
	p.TheirPub = pub
	p.OurKeyID = 2
	p.OurPrev = DHPair{Priv: p.X, Pub: p.Gx}
	p.OurCur = next
	p.TheirKeyID = theirKeyID
	p.TheirCur = p.TheirG
	p.TheirPrev = nil
	p.SendCtr = map[[2]uint32]uint64{}
	p.RecvCtr = map[[2]uint32]uint64{}
	p.SMP.Reset()
	p.AuthState = AuthNone
}

// --- data messages -----------------------------------------------------------

// ourKey returns our DH pair with the given serial.
func (p *Peer) ourKey(id uint32) (DHPair, bool) {
	switch {
	case id == 0 || !p.Encrypted && !p.Finished:
		return DHPair{}, false
	case id == p.OurKeyID:
		return p.OurCur, p.OurCur.Priv != nil
	case id == p.OurKeyID-1:
		return p.OurPrev, p.OurPrev.Priv != nil
	}
	return DHPair{}, false
}

// theirKey returns the peer's DH public key with the given serial.
func (p *Peer) theirKey(id uint32) (*big.Int, bool) {
	switch {
	case id == 0 || !p.Encrypted && !p.Finished:
		return nil, false
	case id == p.TheirKeyID:
		return p.TheirCur, p.TheirCur != nil
	case id == p.TheirKeyID-1:
		return p.TheirPrev, p.TheirPrev != nil
	}
	return nil, false
}

func (p *Peer) onData(m *Data) ([][]byte, error) {
	if !p.Encrypted {
		return nil, reject("not-encrypted", "data message received outside an encrypted session")
	}
	// Recipient keyid must be our_keyid or our_keyid-1; sender keyid must be
	// their_keyid or their_keyid-1, and that key must exist. Neither is 0.
	ours, ok := p.ourKey(m.RecipientKeyID)
	if !ok {
		return nil, reject("recipient-keyid", "recipient keyid %d, ours is %d", m.RecipientKeyID, p.OurKeyID)
	}
	theirs, ok := p.theirKey(m.SenderKeyID)
	if !ok {
		return nil, reject("sender-keyid", "sender keyid %d, theirs is %d", m.SenderKeyID, p.TheirKeyID)
	}
	keys := DeriveDataKeys(ours.Priv, ours.Pub, theirs)
	// MAC over version SHORT .. end of ciphertext DATA with the receiving
	// MAC key of this pairing.
	if len(m.MAC) != 20 || !hmac.Equal(m.MAC, DataMAC(keys.RecvMAC, m.AuthBytes())) {
		return nil, reject("mac", "data message MAC does not verify")
	}
	// Counter: non-zero and strictly increasing per key pairing.
	pair := [2]uint32{m.RecipientKeyID, m.SenderKeyID}
	ctr := binary.BigEndian.Uint64(m.Ctr[:])
	if ctr == 0 {
		return nil, reject("ctr-zero", "counter top half is zero")
	}
	if ctr <= p.RecvCtr[pair] {
		return nil, reject("ctr-replay", "counter %d not above %d", ctr, p.RecvCtr[pair])
	}
	// The specification does not ask the receiver to range-check the advertised
	// next DH key (a peer choosing a degenerate key only weakens its own
	// session); the reference accepts whatever an authenticated peer announces.
	plain := AESCTR(keys.RecvAES, m.Ctr, m.Enc)
	text, tlvs, err := ParsePlain(plain)
	if err != nil {
		return nil, reject("tlv", "%v", err)
	}
	var next DHPair
	if m.RecipientKeyID == p.OurKeyID {
		if next, err = NewDHPair(p.Rand); err != nil {
			return nil, err
		}
	}

	// --- accepted: commit ---
	p.learnTag(m.Header)
	p.RecvCtr[pair] = ctr
	known := false
	for _, u := range p.UsedRecvMAC {
		known = known || (u.OurID == pair[0] && u.TheirID == pair[1])
	}
	if !known {
		p.UsedRecvMAC = append(p.UsedRecvMAC, UsedKey{OurID: pair[0], TheirID: pair[1], Key: keys.RecvMAC})
	}
	// Ratchet. If the peer used our newest key: drop our oldest key,
	// our_keyid++, generate a new pair.
	if m.RecipientKeyID == p.OurKeyID {
		p.retire(p.OurKeyID-1, true)
		p.OurPrev = p.OurCur
		p.OurCur = next
		p.OurKeyID++
	}
	// If the peer sent with their newest key: drop their oldest,
	// their_keyid++, store the advertised key as newest.
	if m.SenderKeyID == p.TheirKeyID {
		p.retire(p.TheirKeyID-1, false)
		p.TheirPrev = p.TheirCur
		p.TheirCur = m.NextDH
		p.TheirKeyID++
	}
	d := Delivery{Text: text, TLVs: tlvs, Flags: m.Flags, ExtraKey: keys.Extra, Encrypted: true,
		SenderKeyID: m.SenderKeyID, RecipientKeyID: m.RecipientKeyID, Ctr: ctr}
	p.Inbox = append(p.Inbox, d)
	for _, t := range tlvs {
		if t.Type == TLVDisconnected {
			// The peer ended the session: MSGSTATE_FINISHED.
			p.Encrypted, p.Finished = false, true
			p.SMP.Reset()
			p.logf("data: peer disconnected")
		}
	}
	return nil, nil
}

// retire drops one key generation (ours if our is true, else theirs) and
// moves the receiving MAC keys of its pairings that verified a message to
// the disclosure list, in the order they were first used.
func (p *Peer) retire(id uint32, our bool) {
	kept := p.UsedRecvMAC[:0:0]
	for _, u := range p.UsedRecvMAC {
		if (our && u.OurID == id) || (!our && u.TheirID == id) {
			p.PendingOldMAC = append(p.PendingOldMAC, u.Key...)
		} else {
			kept = append(kept, u)
		}
	}
	p.UsedRecvMAC = kept
}

// DataSpec describes a data message to build. Nil / zero fields mean "what a
// conforming sender would use now".
type DataSpec struct {
	Text  []byte
	TLVs  []TLV
	Flags byte
	// SenderKeyID / RecipientKeyID override the key ids written into the
	// message. Keys are derived from the key generation with that serial if
	// we hold it (ours: OurKeyID-1 or OurKeyID; theirs: TheirKeyID or
	// TheirKeyID-1), otherwise from the default one (ours OurKeyID-1, theirs
	// TheirKeyID).
	SenderKeyID, RecipientKeyID *uint32
	// Ctr overrides the counter top half. If nil the next unused value for
	// the (sender keyid, recipient keyid) pairing is used AND recorded in
	// SendCtr; if non-nil SendCtr is left alone.
	Ctr *uint64
	// MACKey overrides the MAC key (default: sending MAC key of the pairing).
	MACKey []byte
	// NextDH overrides the advertised next key (default: OurCur.Pub, or for
	// an overridden sender keyid we hold, the public key with serial+1 when
	// we hold it).
	NextDH *big.Int
	// OldMAC overrides the revealed MAC keys. If nil, PendingOldMAC is
	// revealed AND cleared; if non-nil (even empty) PendingOldMAC is left
	// alone.
	OldMAC []byte
	// RawPlain, if non-nil, is encrypted instead of BuildPlain(Text, TLVs).
	RawPlain []byte
	// EncKey overrides the AES key (default: sending AES key of the pairing).
	EncKey []byte
}

// BuildData builds and MACs a data message. It mutates the Peer only in the
// two cases documented on DataSpec: Ctr == nil advances SendCtr, OldMAC ==
// nil consumes PendingOldMAC. It never touches DH keys or any other state,
// and requires an established (or finished) session to have key material.
func (p *Peer) BuildData(spec DataSpec) (*Data, error) {
	if !p.Encrypted && !p.Finished {
		return nil, errors.New("refotr: BuildData: no session keys")
	}
	sid, rid := p.OurKeyID-1, p.TheirKeyID
	ours, theirs := p.OurPrev, p.TheirCur
	nextDH := p.OurCur.Pub
	if spec.SenderKeyID != nil {
		sid = *spec.SenderKeyID
		if k, ok := p.ourKey(sid); ok {
			ours = k
			if nk, ok := p.ourKey(sid + 1); ok {
				nextDH = nk.Pub
			}
		}
	}
	if spec.RecipientKeyID != nil {
		rid = *spec.RecipientKeyID
		if k, ok := p.theirKey(rid); ok {
			theirs = k
		}
	}
	if spec.NextDH != nil {
		nextDH = spec.NextDH
	}
	keys := DeriveDataKeys(ours.Priv, ours.Pub, theirs)

	m := &Data{Header: p.hdr(TypeData), Flags: spec.Flags, SenderKeyID: sid, RecipientKeyID: rid, NextDH: nextDH}
	pair := [2]uint32{sid, rid}
	var ctr uint64
	if spec.Ctr != nil {
		ctr = *spec.Ctr
	} else {
		ctr = p.SendCtr[pair] + 1
		p.SendCtr[pair] = ctr
	}
	binary.BigEndian.PutUint64(m.Ctr[:], ctr)

	plain := spec.RawPlain
	if plain == nil {
		plain = BuildPlain(spec.Text, spec.TLVs)
	}
	encKey := keys.SendAES
	if spec.EncKey != nil {
		encKey = spec.EncKey
	}
	m.Enc = AESCTR(encKey, m.Ctr, plain)

	if spec.OldMAC != nil {
		m.OldMACKeys = append([]byte{}, spec.OldMAC...)
	} else {
		m.OldMACKeys = append([]byte{}, p.PendingOldMAC...)
		p.PendingOldMAC = nil
	}
	macKey := keys.SendMAC
	if spec.MACKey != nil {
		macKey = spec.MACKey
	}
	m.MAC = DataMAC(macKey, m.AuthBytes())
	return m, nil
}

// Send builds the next conforming data message (sender keyid our_keyid-1,
// recipient keyid their_keyid, next DH = pub(our_keyid), fresh counter,
// pending old MAC keys revealed) and returns it armoured. No padding.
func (p *Peer) Send(text []byte, tlvs []TLV, flags byte) ([]byte, error) {
	if !p.Encrypted {
		return nil, errors.New("refotr: Send: not in an encrypted session")
	}
	m, err := p.BuildData(DataSpec{Text: text, TLVs: tlvs, Flags: flags})
	if err != nil {
		return nil, err
	}
	return Armor(m.Raw()), nil
}

// SendTLV sends TLVs with empty text and the ignore-unreadable flag (as the
// spec prescribes for SMP and other non-text messages).
func (p *Peer) SendTLV(tlvs ...TLV) ([]byte, error) {
	return p.Send(nil, tlvs, FlagIgnoreUnreadable)
}

// Disconnect sends the "disconnected" TLV and leaves the encrypted state.
func (p *Peer) Disconnect() ([]byte, error) {
	out, err := p.SendTLV(TLV{Type: TLVDisconnected, Value: []byte{}})
	if err != nil {
		return nil, err
	}
	p.Encrypted, p.Finished = false, false
	p.SMP.Reset()
	return out, nil
}

// SendKeys returns the keys of the pairing Send would use now.
func (p *Peer) SendKeys() (DataKeys, bool) {
	if !p.Encrypted {
		return DataKeys{}, false
	}
	return DeriveDataKeys(p.OurPrev.Priv, p.OurPrev.Pub, p.TheirCur), true
}

// ExtraKey returns the extra symmetric key of the pairing Send would use
// now, or nil outside an encrypted session.
func (p *Peer) ExtraKey() []byte {
	k, ok := p.SendKeys()
	if !ok {
		return nil
	}
	return k.Extra
}

// --- SMP convenience ---------------------------------------------------------

// SMP results reported by SMPStep.
const (
	SMPInProgress = iota
	SMPSucceeded
	SMPFailed
	SMPAborted
)

// SMPSecretFor computes the SMP secret for this session from the user
// secret: our fingerprint comes first iff we initiate SMP.
func (p *Peer) SMPSecretFor(secret []byte, weInitiate bool) *big.Int {
	ourFP := Fingerprint(&p.Priv.PublicKey)
	theirFP := Fingerprint(p.TheirPub)
	if weInitiate {
		return SMPSecret(ourFP, theirFP, p.SSID, secret)
	}
	return SMPSecret(theirFP, ourFP, p.SSID, secret)
}

// SMPStart initiates SMP and returns the armoured data message carrying
// message 1.
func (p *Peer) SMPStart(secret, question []byte, hasQ bool) ([]byte, error) {
	if !p.Encrypted {
		return nil, errors.New("refotr: SMPStart: not in an encrypted session")
	}
	m, err := p.SMP.Init(p.Rand, p.SMPSecretFor(secret, true), question, hasQ)
	if err != nil {
		return nil, err
	}
	return p.SendTLV(m.TLV())
}

// SMPStep feeds one SMP TLV (taken from the Inbox) to the state machine and
// returns the armoured reply, if any. secret is the local user secret and is
// only used when t is message 1. If a message fails to parse or verify, or
// arrives in the wrong state, the run is aborted: the reply carries an abort
// TLV, result is SMPAborted and err describes the failure.
func (p *Peer) SMPStep(t TLV, secret []byte) (out []byte, result int, err error) {
	var reply TLV
	result = SMPInProgress
	switch t.Type {
	case TLVSMPAbort:
		p.SMP.Reset()
		return nil, SMPAborted, nil
	case TLVSMP1, TLVSMP1Q:
		var m *SMP1
		var r *SMP2
		if m, err = ParseSMP1(t); err == nil {
			if err = p.SMP.Recv1(m); err == nil {
				if r, err = p.SMP.Answer(p.Rand, p.SMPSecretFor(secret, false)); err == nil {
					reply = r.TLV()
				}
			}
		}
	case TLVSMP2:
		var m *SMP2
		var r *SMP3
		if m, err = ParseSMP2(t); err == nil {
			if r, err = p.SMP.Recv2(p.Rand, m); err == nil {
				reply = r.TLV()
			}
		}
	case TLVSMP3:
		var m *SMP3
		var r *SMP4
		var ok bool
		if m, err = ParseSMP3(t); err == nil {
			if r, ok, err = p.SMP.Recv3(p.Rand, m); err == nil {
				reply = r.TLV()
				result = SMPFailed
				if ok {
					result = SMPSucceeded
				}
			}
		}
	case TLVSMP4:
		var m *SMP4
		var ok bool
		if m, err = ParseSMP4(t); err == nil {
			if ok, err = p.SMP.Recv4(m); err == nil {
				result = SMPFailed
				if ok {
					result = SMPSucceeded
				}
				return nil, result, nil
			}
		}
	default:
		return nil, SMPInProgress, fmt.Errorf("refotr: SMPStep: TLV type %d is not an SMP message", t.Type)
	}
	if err != nil {
		p.SMP.Reset()
		out, serr := p.SendTLV(SMPAbortTLV())
		if serr != nil {
			return nil, SMPAborted, serr
		}
		return out, SMPAborted, err
	}
	out, err = p.SendTLV(reply)
	return out, result, err
}
