package refotr

import (
	"bytes"
	"errors"
	"fmt"
)

// Fragment formats:
//
//	v3: "?OTR|%08x|%08x,%05hu,%05hu,%s,"  sender tag, receiver tag, k, n, piece
//	v2: "?OTR,%05hu,%05hu,%s,"            k, n, piece
//
// k counts from 1; n <= 65535.

// MaxFragments is the largest permitted fragment count.
const MaxFragments = 65535

// Fragment splits msg into ceil(len(msg)/pieceLen) fragments carrying at
// most pieceLen payload bytes each. It always produces fragments, even when
// a single piece suffices (the caller decides whether to fragment at all).
// version >= 3 selects the v3 format. It returns nil if pieceLen < 1, msg is
// empty, or more than 65535 pieces would be needed.
func Fragment(version uint16, senderTag, receiverTag uint32, msg []byte, pieceLen int) [][]byte {
	if pieceLen < 1 || len(msg) == 0 {
		return nil
	}
	n := (len(msg) + pieceLen - 1) / pieceLen
	if n > MaxFragments {
		return nil
	}
	out := make([][]byte, 0, n)
	for k := 1; k <= n; k++ {
		lo := (k - 1) * pieceLen
		hi := lo + pieceLen
		if hi > len(msg) {
			hi = len(msg)
		}
		var f []byte
		if version >= 3 {
			f = []byte(fmt.Sprintf("?OTR|%08x|%08x,%05d,%05d,", senderTag, receiverTag, k, n))
		} else {
			f = []byte(fmt.Sprintf("?OTR,%05d,%05d,", k, n))
		}
		f = append(f, msg[lo:hi]...)
		f = append(f, ',')
		out = append(out, f)
	}
	return out
}

// FragInfo is a parsed fragment.
type FragInfo struct {
	V3          bool
	SenderTag   uint32
	ReceiverTag uint32
	K, N        int
	Piece       []byte
}

// IsFragment reports whether b starts like a v2 or v3 fragment.
func IsFragment(b []byte) bool {
	return bytes.HasPrefix(b, []byte("?OTR|")) || bytes.HasPrefix(b, []byte("?OTR,"))
}

// ParseFragment strictly parses a fragment: instance tags are exactly 8 hex
// digits, k and n exactly 5 decimal digits (hence <= 99999; values above
// 65535 are rejected), the piece is non-empty and contains no comma, and the
// fragment ends with a comma. Semantic checks on k and n (k == 0, n == 0,
// k > n) are left to Reassembler.Add, which ignores such fragments.
func ParseFragment(b []byte) (FragInfo, error) { return parseFragment(b, false) }

// ParseFragmentLenient reads like a tolerant receiver: it also takes a piece that is empty
// (implementations exist that emit one; what a receiver does with it is its own choice).
func ParseFragmentLenient(b []byte) (FragInfo, error) { return parseFragment(b, true) }

func parseFragment(b []byte, allowEmpty bool) (FragInfo, error) {
	var f FragInfo
	rest := b
	switch {
	case bytes.HasPrefix(b, []byte("?OTR|")):
		f.V3 = true
		rest = b[5:]
		// "%08x|%08x,"
		if len(rest) < 18 || rest[8] != '|' || rest[17] != ',' {
			return f, errors.New("refotr: fragment: malformed instance tags")
		}
		s, ok1 := parseHex8(rest[0:8])
		r, ok2 := parseHex8(rest[9:17])
		if !ok1 || !ok2 {
			return f, errors.New("refotr: fragment: instance tag is not 8 hex digits")
		}
		f.SenderTag, f.ReceiverTag = s, r
		rest = rest[18:]
	case bytes.HasPrefix(b, []byte("?OTR,")):
		rest = b[5:]
	default:
		return f, errors.New("refotr: fragment: missing prefix")
	}
	// "%05hu,%05hu,"
	if len(rest) < 12 || rest[5] != ',' || rest[11] != ',' {
		return f, errors.New("refotr: fragment: malformed k,n")
	}
	k, ok1 := parseDec5(rest[0:5])
	n, ok2 := parseDec5(rest[6:11])
	if !ok1 || !ok2 {
		return f, errors.New("refotr: fragment: k or n is not 5 decimal digits")
	}
	if k > MaxFragments || n > MaxFragments {
		return f, errors.New("refotr: fragment: k or n exceeds 65535")
	}
	f.K, f.N = k, n
	rest = rest[12:]
	if len(rest) < 1 || rest[len(rest)-1] != ',' {
		return f, errors.New("refotr: fragment: missing trailing comma")
	}
	piece := rest[:len(rest)-1]
	if len(piece) == 0 && !allowEmpty {
		// "each piece[k,n] must be non-empty" (Fragmentation); libotr's sscanf("%s,") does not
		// match an empty piece either, so such a fragment is dropped by it and the message lost
		return f, errors.New("refotr: fragment: empty piece")
	}
	if bytes.IndexByte(piece, ',') >= 0 {
		return f, errors.New("refotr: fragment: comma inside piece")
	}
	f.Piece = append([]byte{}, piece...)
	return f, nil
}

func parseHex8(b []byte) (uint32, bool) {
	var v uint32
	for _, c := range b {
		var d byte
		switch {
		case c >= '0' && c <= '9':
			d = c - '0'
		case c >= 'a' && c <= 'f':
			d = c - 'a' + 10
		case c >= 'A' && c <= 'F':
			d = c - 'A' + 10
		default:
			return 0, false
		}
		v = v<<4 | uint32(d)
	}
	return v, true
}

func parseDec5(b []byte) (int, bool) {
	v := 0
	for _, c := range b {
		if c < '0' || c > '9' {
			return 0, false
		}
		v = v*10 + int(c-'0')
	}
	return v, true
}

// Reassembler implements the spec's fragment reassembly rule. K is the
// index of the last stored fragment, N the announced total, Buf the pieces
// concatenated so far. K == N == 0 means nothing is stored.
type Reassembler struct {
	K, N int
	Buf  []byte
}

// Add processes one fragment (k of n):
//
//   - k == 0, n == 0 or k > n: ignore the fragment, keep the state;
//   - k == 1: forget anything stored, store the piece, K = 1, N = n;
//   - n == N and k == K+1: append the piece, K = k;
//   - otherwise: forget everything (K = N = 0).
//
// After storing, if K == N > 0 the concatenation is returned as a complete
// message and the state is forgotten. Otherwise nil is returned.
func (r *Reassembler) Add(k, n int, piece []byte) (complete []byte) {
	if k <= 0 || n <= 0 || k > n {
		return nil
	}
	switch {
	case k == 1:
		r.Buf = append([]byte{}, piece...)
		r.K, r.N = 1, n
	case n == r.N && k == r.K+1:
		r.Buf = append(r.Buf, piece...)
		r.K = k
	default:
		r.Buf, r.K, r.N = nil, 0, 0
		return nil
	}
	if r.K == r.N && r.N > 0 {
		complete = r.Buf
		r.Buf, r.K, r.N = nil, 0, 0
		return complete
	}
	return nil
}
