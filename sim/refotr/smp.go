package refotr

import (
	"bytes"
	"crypto/sha256"
	"errors"
	"fmt"
	"io"
	"math/big"
)

// Socialist Millionaires' Protocol. Alice is the SMP initiator (sends
// messages 1 and 3), Bob the responder (sends 2 and 4).

// SMP states (spec: SMPSTATE_EXPECT1..4).
const (
	SMPExpect1 = 1
	SMPExpect2 = 2
	SMPExpect3 = 3
	SMPExpect4 = 4
)

// SMPExpLen is the byte length of random SMP exponents (1536 bits).
const SMPExpLen = 192

// SMP1: g2a, c2, D2, g3a, c3, D3 (TLV type 2; type 7 if a question is
// attached, in which case the value starts with the question and a NUL).
type SMP1 struct {
	G2a, C2, D2, G3a, C3, D3 *big.Int
	Question                 []byte
	HasQuestion              bool
}

// SMP2: g2b, c2, D2, g3b, c3, D3, Pb, Qb, cP, D5, D6 (TLV type 3).
type SMP2 struct {
	G2b, C2, D2, G3b, C3, D3, Pb, Qb, CP, D5, D6 *big.Int
}

// SMP3: Pa, Qa, cP, D5, D6, Ra, cR, D7 (TLV type 4).
type SMP3 struct {
	Pa, Qa, CP, D5, D6, Ra, CR, D7 *big.Int
}

// SMP4: Rb, cR, D7 (TLV type 5).
type SMP4 struct {
	Rb, CR, D7 *big.Int
}

// smpValue encodes INT count followed by that many MPIs.
func smpValue(v ...*big.Int) []byte {
	b := PutInt(nil, uint32(len(v)))
	for _, x := range v {
		b = PutMPI(b, x)
	}
	return b
}

// parseSMPValue strictly decodes exactly n MPIs.
func parseSMPValue(b []byte, n int) ([]*big.Int, error) {
	r := &Reader{B: b}
	cnt := r.Int()
	if r.Err != nil {
		return nil, errors.New("refotr: smp: truncated MPI count")
	}
	if int64(cnt) != int64(n) {
		return nil, fmt.Errorf("refotr: smp: MPI count %d, want %d", cnt, n)
	}
	out := make([]*big.Int, n)
	for i := range out {
		out[i] = r.MPI()
	}
	if r.Err != nil {
		return nil, fmt.Errorf("refotr: smp: %v", r.Err)
	}
	if !r.Done() {
		return nil, errors.New("refotr: smp: trailing bytes after MPIs")
	}
	return out, nil
}

// TLV encodes the message (type 7 with question prefix if HasQuestion).
func (m *SMP1) TLV() TLV {
	v := smpValue(m.G2a, m.C2, m.D2, m.G3a, m.C3, m.D3)
	if m.HasQuestion {
		q := append(append([]byte{}, m.Question...), 0)
		return TLV{Type: TLVSMP1Q, Value: append(q, v...)}
	}
	return TLV{Type: TLVSMP1, Value: v}
}

// TLV encodes the message.
func (m *SMP2) TLV() TLV {
	return TLV{Type: TLVSMP2, Value: smpValue(m.G2b, m.C2, m.D2, m.G3b, m.C3, m.D3, m.Pb, m.Qb, m.CP, m.D5, m.D6)}
}

// TLV encodes the message.
func (m *SMP3) TLV() TLV {
	return TLV{Type: TLVSMP3, Value: smpValue(m.Pa, m.Qa, m.CP, m.D5, m.D6, m.Ra, m.CR, m.D7)}
}

// TLV encodes the message.
func (m *SMP4) TLV() TLV {
	return TLV{Type: TLVSMP4, Value: smpValue(m.Rb, m.CR, m.D7)}
}

// ParseSMP1 strictly parses TLV type 2 or 7.
func ParseSMP1(t TLV) (*SMP1, error) {
	m := &SMP1{}
	v := t.Value
	switch t.Type {
	case TLVSMP1:
	case TLVSMP1Q:
		i := bytes.IndexByte(v, 0)
		if i < 0 {
			return nil, errors.New("refotr: smp: question is not NUL-terminated")
		}
		m.HasQuestion = true
		m.Question = append([]byte{}, v[:i]...)
		v = v[i+1:]
	default:
		return nil, fmt.Errorf("refotr: smp: TLV type %d is not SMP1", t.Type)
	}
	x, err := parseSMPValue(v, 6)
	if err != nil {
		return nil, err
	}
	m.G2a, m.C2, m.D2, m.G3a, m.C3, m.D3 = x[0], x[1], x[2], x[3], x[4], x[5]
	return m, nil
}

// ParseSMP2 strictly parses TLV type 3.
func ParseSMP2(t TLV) (*SMP2, error) {
	if t.Type != TLVSMP2 {
		return nil, fmt.Errorf("refotr: smp: TLV type %d is not SMP2", t.Type)
	}
	x, err := parseSMPValue(t.Value, 11)
	if err != nil {
		return nil, err
	}
	return &SMP2{x[0], x[1], x[2], x[3], x[4], x[5], x[6], x[7], x[8], x[9], x[10]}, nil
}

// ParseSMP3 strictly parses TLV type 4.
func ParseSMP3(t TLV) (*SMP3, error) {
	if t.Type != TLVSMP3 {
		return nil, fmt.Errorf("refotr: smp: TLV type %d is not SMP3", t.Type)
	}
	x, err := parseSMPValue(t.Value, 8)
	if err != nil {
		return nil, err
	}
	return &SMP3{x[0], x[1], x[2], x[3], x[4], x[5], x[6], x[7]}, nil
}

// ParseSMP4 strictly parses TLV type 5.
func ParseSMP4(t TLV) (*SMP4, error) {
	if t.Type != TLVSMP4 {
		return nil, fmt.Errorf("refotr: smp: TLV type %d is not SMP4", t.Type)
	}
	x, err := parseSMPValue(t.Value, 3)
	if err != nil {
		return nil, err
	}
	return &SMP4{x[0], x[1], x[2]}, nil
}

// SMPAbortTLV is the (empty) abort TLV, type 6.
func SMPAbortTLV() TLV { return TLV{Type: TLVSMPAbort, Value: []byte{}} }

// SMPSecret computes the secret compared by SMP:
//
//	SHA-256(0x01 || initiator fingerprint || responder fingerprint ||
//	        SSID || user secret)  as a big-endian integer.
func SMPSecret(initFP, respFP []byte, ssid [8]byte, secret []byte) *big.Int {
	h := sha256.New()
	h.Write([]byte{1})
	h.Write(initFP)
	h.Write(respFP)
	h.Write(ssid[:])
	h.Write(secret)
	return new(big.Int).SetBytes(h.Sum(nil))
}

// SMPHash = SHA-256(BYTE version || MPI a [|| MPI b]) as a big-endian
// integer; b may be nil.
func SMPHash(version byte, a, b *big.Int) *big.Int {
	buf := []byte{version}
	buf = PutMPI(buf, a)
	if b != nil {
		buf = PutMPI(buf, b)
	}
	s := sha256.Sum256(buf)
	return new(big.Int).SetBytes(s[:])
}

// SMPState holds every exponent and intermediate value of one SMP run.
// Only the fields relevant to the local role are populated.
type SMPState struct {
	// Careless: skip every verification of received values (range checks and
	// zero-knowledge proofs). For an attacker's engine; never set for an honest peer.
	Careless bool

	State int // SMPExpect1..4; the zero value is treated as SMPExpect1

	// HaveMsg1 is set by Recv1: message 1 was verified and the run waits
	// for the local secret (Answer).
	HaveMsg1    bool
	Question    []byte
	HasQuestion bool

	X, Y *big.Int // secret of the initiator (X) / responder (Y)

	A2, A3 *big.Int // initiator exponents
	B2, B3 *big.Int // responder exponents
	// Random values, named as in the spec for the message they were last
	// drawn for (r2,r3 in msg 1/2; r4,r5,r6 in msg 2/3; r7 in msg 3/4).
	R2, R3, R4, R5, R6, R7 *big.Int

	G2a, G3a, G2b, G3b *big.Int
	G2, G3             *big.Int
	Pa, Qa, Pb, Qb     *big.Int
	Ra, Rb             *big.Int
	QaQb               *big.Int // Qa / Qb
	PaPb               *big.Int // Pa / Pb
	Rab                *big.Int
}

// ErrSMPState: a step was invoked in a state that does not expect it.
var ErrSMPState = errors.New("refotr: smp: message not expected in this state")

// Reset aborts the run: all values are forgotten, state is EXPECT1.
func (s *SMPState) Reset() { *s = SMPState{State: SMPExpect1, Careless: s.Careless} }

func (s *SMPState) state() int {
	if s.State == 0 {
		return SMPExpect1
	}
	return s.State
}

func (s *SMPState) fail(err error) error {
	s.Reset()
	return err
}

func subMulQ(r, x, c *big.Int) *big.Int {
	// D = r - x*c mod q, normalised to 0..q-1.
	d := new(big.Int).Mul(x, c)
	d.Sub(r, d)
	return d.Mod(d, Q)
}

func randExps(rnd io.Reader, n int) ([]*big.Int, error) {
	out := make([]*big.Int, n)
	for i := range out {
		v, err := RandMPI(rnd, SMPExpLen)
		if err != nil {
			return nil, err
		}
		out[i] = v
	}
	return out, nil
}

func eq(a, b *big.Int) bool { return a != nil && b != nil && a.Cmp(b) == 0 }

// Init starts SMP as the initiator. Random draws, in order: a2, a3, r2, r3.
//
//	g2a = g^a2, g3a = g^a3,
//	c2 = H(1, g^r2), D2 = r2 - a2 c2, c3 = H(2, g^r3), D3 = r3 - a3 c3.
//
// Any run in progress is discarded. State becomes EXPECT2.
func (s *SMPState) Init(rnd io.Reader, secret *big.Int, question []byte, hasQ bool) (*SMP1, error) {
	e, err := randExps(rnd, 4)
	if err != nil {
		return nil, err
	}
	s.Reset()
	s.X = secret
	s.A2, s.A3, s.R2, s.R3 = e[0], e[1], e[2], e[3]
	s.Question, s.HasQuestion = question, hasQ
	s.G2a = Exp(G, s.A2)
	s.G3a = Exp(G, s.A3)
	m := &SMP1{G2a: s.G2a, G3a: s.G3a, Question: question, HasQuestion: hasQ}
	m.C2 = SMPHash(1, Exp(G, s.R2), nil)
	m.D2 = subMulQ(s.R2, s.A2, m.C2)
	m.C3 = SMPHash(2, Exp(G, s.R3), nil)
	m.D3 = subMulQ(s.R3, s.A3, m.C3)
	s.State = SMPExpect2
	return m, nil
}

// Recv1 verifies message 1 (responder side) and stores g2a, g3a:
//
//	g2a, g3a in 2..p-2;  D2, D3 in 1..q-1;
//	c2 == H(1, g^D2 g2a^c2);  c3 == H(2, g^D3 g3a^c3).
//
// Must be in EXPECT1; the state stays EXPECT1 (with HaveMsg1 set) until
// Answer is called. On any error the run is reset.
func (s *SMPState) Recv1(m *SMP1) error {
	if s.state() != SMPExpect1 {
		return s.fail(ErrSMPState)
	}
	if !s.Careless && (!InRange(m.G2a) || !InRange(m.G3a)) {
		return s.fail(errors.New("refotr: smp1: group element out of range"))
	}
	if !s.Careless && (!InRangeQ(m.D2) || !InRangeQ(m.D3)) {
		return s.fail(errors.New("refotr: smp1: exponent out of range"))
	}
	if !s.Careless && (!eq(m.C2, SMPHash(1, MulP(Exp(G, m.D2), Exp(m.G2a, m.C2)), nil))) {
		return s.fail(errors.New("refotr: smp1: proof c2 fails"))
	}
	if !s.Careless && (!eq(m.C3, SMPHash(2, MulP(Exp(G, m.D3), Exp(m.G3a, m.C3)), nil))) {
		return s.fail(errors.New("refotr: smp1: proof c3 fails"))
	}
	s.Reset()
	s.G2a, s.G3a = m.G2a, m.G3a
	s.Question, s.HasQuestion = m.Question, m.HasQuestion
	s.HaveMsg1 = true
	return nil
}

// Answer produces message 2 (responder side) after Recv1. Random draws, in
// order: b2, b3, r2, r3, r4, r5, r6.
//
//	g2b = g^b2, g3b = g^b3, c2 = H(3, g^r2), D2 = r2 - b2 c2,
//	c3 = H(4, g^r3), D3 = r3 - b3 c3, g2 = g2a^b2, g3 = g3a^b3,
//	Pb = g3^r4, Qb = g^r4 g2^y, cP = H(5, g3^r5, g^r5 g2^r6),
//	D5 = r5 - r4 cP, D6 = r6 - y cP.
//
// State becomes EXPECT3.
func (s *SMPState) Answer(rnd io.Reader, secret *big.Int) (*SMP2, error) {
	if s.state() != SMPExpect1 || !s.HaveMsg1 {
		return nil, ErrSMPState
	}
	e, err := randExps(rnd, 7)
	if err != nil {
		return nil, err
	}
	s.Y = secret
	s.B2, s.B3, s.R2, s.R3, s.R4, s.R5, s.R6 = e[0], e[1], e[2], e[3], e[4], e[5], e[6]
	s.G2b = Exp(G, s.B2)
	s.G3b = Exp(G, s.B3)
	m := &SMP2{G2b: s.G2b, G3b: s.G3b}
	m.C2 = SMPHash(3, Exp(G, s.R2), nil)
	m.D2 = subMulQ(s.R2, s.B2, m.C2)
	m.C3 = SMPHash(4, Exp(G, s.R3), nil)
	m.D3 = subMulQ(s.R3, s.B3, m.C3)
	s.G2 = Exp(s.G2a, s.B2)
	s.G3 = Exp(s.G3a, s.B3)
	s.Pb = Exp(s.G3, s.R4)
	s.Qb = MulP(Exp(G, s.R4), Exp(s.G2, s.Y))
	m.Pb, m.Qb = s.Pb, s.Qb
	m.CP = SMPHash(5, Exp(s.G3, s.R5), MulP(Exp(G, s.R5), Exp(s.G2, s.R6)))
	m.D5 = subMulQ(s.R5, s.R4, m.CP)
	m.D6 = subMulQ(s.R6, s.Y, m.CP)
	s.HaveMsg1 = false
	s.State = SMPExpect3
	return m, nil
}

// Recv2 verifies message 2 and produces message 3 (initiator side).
//
//	g2b, g3b, Pb, Qb in 2..p-2;  D2, D3, D5, D6 in 1..q-1;
//	c2 == H(3, g^D2 g2b^c2); c3 == H(4, g^D3 g3b^c3);
//	g2 = g2b^a2; g3 = g3b^a3;
//	cP == H(5, g3^D5 Pb^cP, g^D5 g2^D6 Qb^cP).
//
// Random draws, in order: r4, r5, r6, r7.
//
//	Pa = g3^r4, Qa = g^r4 g2^x, cP = H(6, g3^r5, g^r5 g2^r6),
//	D5 = r5 - r4 cP, D6 = r6 - x cP, Ra = (Qa/Qb)^a3,
//	cR = H(7, g^r7, (Qa/Qb)^r7), D7 = r7 - a3 cR.
//
// State becomes EXPECT4. On a verification error the run is reset.
func (s *SMPState) Recv2(rnd io.Reader, m *SMP2) (*SMP3, error) {
	if s.state() != SMPExpect2 {
		return nil, s.fail(ErrSMPState)
	}
	if !s.Careless && (!InRange(m.G2b) || !InRange(m.G3b) || !InRange(m.Pb) || !InRange(m.Qb)) {
		return nil, s.fail(errors.New("refotr: smp2: group element out of range"))
	}
	if !s.Careless && (!InRangeQ(m.D2) || !InRangeQ(m.D3) || !InRangeQ(m.D5) || !InRangeQ(m.D6)) {
		return nil, s.fail(errors.New("refotr: smp2: exponent out of range"))
	}
	if !s.Careless && (!eq(m.C2, SMPHash(3, MulP(Exp(G, m.D2), Exp(m.G2b, m.C2)), nil))) {
		return nil, s.fail(errors.New("refotr: smp2: proof c2 fails"))
	}
	if !s.Careless && (!eq(m.C3, SMPHash(4, MulP(Exp(G, m.D3), Exp(m.G3b, m.C3)), nil))) {
		return nil, s.fail(errors.New("refotr: smp2: proof c3 fails"))
	}
	g2 := Exp(m.G2b, s.A2)
	g3 := Exp(m.G3b, s.A3)
	t1 := MulP(Exp(g3, m.D5), Exp(m.Pb, m.CP))
	t2 := MulP(MulP(Exp(G, m.D5), Exp(g2, m.D6)), Exp(m.Qb, m.CP))
	if !s.Careless && (!eq(m.CP, SMPHash(5, t1, t2))) {
		return nil, s.fail(errors.New("refotr: smp2: proof cP fails"))
	}
	e, err := randExps(rnd, 4)
	if err != nil {
		return nil, err
	}
	s.G2b, s.G3b, s.G2, s.G3, s.Pb, s.Qb = m.G2b, m.G3b, g2, g3, m.Pb, m.Qb
	s.R4, s.R5, s.R6, s.R7 = e[0], e[1], e[2], e[3]
	s.Pa = Exp(s.G3, s.R4)
	s.Qa = MulP(Exp(G, s.R4), Exp(s.G2, s.X))
	out := &SMP3{Pa: s.Pa, Qa: s.Qa}
	out.CP = SMPHash(6, Exp(s.G3, s.R5), MulP(Exp(G, s.R5), Exp(s.G2, s.R6)))
	out.D5 = subMulQ(s.R5, s.R4, out.CP)
	out.D6 = subMulQ(s.R6, s.X, out.CP)
	s.QaQb = MulP(s.Qa, InvP(s.Qb))
	s.PaPb = MulP(s.Pa, InvP(s.Pb))
	s.Ra = Exp(s.QaQb, s.A3)
	out.Ra = s.Ra
	out.CR = SMPHash(7, Exp(G, s.R7), Exp(s.QaQb, s.R7))
	out.D7 = subMulQ(s.R7, s.A3, out.CR)
	s.State = SMPExpect4
	return out, nil
}

// Recv3 verifies message 3 and produces message 4 (responder side).
//
//	Pa, Qa, Ra in 2..p-2;  D5, D6, D7 in 1..q-1;
//	cP == H(6, g3^D5 Pa^cP, g^D5 g2^D6 Qa^cP);
//	cR == H(7, g^D7 g3a^cR, (Qa/Qb)^D7 Ra^cR).
//
// Random draw: r7.
//
//	Rb = (Qa/Qb)^b3, cR = H(8, g^r7, (Qa/Qb)^r7), D7 = r7 - b3 cR.
//	Rab = Ra^b3; success iff Rab == Pa/Pb.
//
// State becomes EXPECT1 (the values of the run stay inspectable).
func (s *SMPState) Recv3(rnd io.Reader, m *SMP3) (msg4 *SMP4, success bool, err error) {
	if s.state() != SMPExpect3 {
		return nil, false, s.fail(ErrSMPState)
	}
	if !s.Careless && (!InRange(m.Pa) || !InRange(m.Qa) || !InRange(m.Ra)) {
		return nil, false, s.fail(errors.New("refotr: smp3: group element out of range"))
	}
	if !s.Careless && (!InRangeQ(m.D5) || !InRangeQ(m.D6) || !InRangeQ(m.D7)) {
		return nil, false, s.fail(errors.New("refotr: smp3: exponent out of range"))
	}
	t1 := MulP(Exp(s.G3, m.D5), Exp(m.Pa, m.CP))
	t2 := MulP(MulP(Exp(G, m.D5), Exp(s.G2, m.D6)), Exp(m.Qa, m.CP))
	if !s.Careless && (!eq(m.CP, SMPHash(6, t1, t2))) {
		return nil, false, s.fail(errors.New("refotr: smp3: proof cP fails"))
	}
	qaqb := MulP(m.Qa, InvP(s.Qb))
	u1 := MulP(Exp(G, m.D7), Exp(s.G3a, m.CR))
	u2 := MulP(Exp(qaqb, m.D7), Exp(m.Ra, m.CR))
	if !s.Careless && (!eq(m.CR, SMPHash(7, u1, u2))) {
		return nil, false, s.fail(errors.New("refotr: smp3: proof cR fails"))
	}
	e, err := randExps(rnd, 1)
	if err != nil {
		return nil, false, err
	}
	s.R7 = e[0]
	s.Pa, s.Qa, s.Ra, s.QaQb = m.Pa, m.Qa, m.Ra, qaqb
	s.PaPb = MulP(s.Pa, InvP(s.Pb))
	s.Rb = Exp(s.QaQb, s.B3)
	msg4 = &SMP4{Rb: s.Rb}
	msg4.CR = SMPHash(8, Exp(G, s.R7), Exp(s.QaQb, s.R7))
	msg4.D7 = subMulQ(s.R7, s.B3, msg4.CR)
	s.Rab = Exp(s.Ra, s.B3)
	s.State = SMPExpect1
	return msg4, eq(s.Rab, s.PaPb), nil
}

// Recv4 verifies message 4 (initiator side).
//
//	Rb in 2..p-2;  D7 in 1..q-1;
//	cR == H(8, g^D7 g3b^cR, (Qa/Qb)^D7 Rb^cR);
//	Rab = Rb^a3; success iff Rab == Pa/Pb.
//
// State becomes EXPECT1.
func (s *SMPState) Recv4(m *SMP4) (success bool, err error) {
	if s.state() != SMPExpect4 {
		return false, s.fail(ErrSMPState)
	}
	if !s.Careless && (!InRange(m.Rb)) {
		return false, s.fail(errors.New("refotr: smp4: group element out of range"))
	}
	if !s.Careless && (!InRangeQ(m.D7)) {
		return false, s.fail(errors.New("refotr: smp4: exponent out of range"))
	}
	u1 := MulP(Exp(G, m.D7), Exp(s.G3b, m.CR))
	u2 := MulP(Exp(s.QaQb, m.D7), Exp(m.Rb, m.CR))
	if !s.Careless && (!eq(m.CR, SMPHash(8, u1, u2))) {
		return false, s.fail(errors.New("refotr: smp4: proof cR fails"))
	}
	s.Rb = m.Rb
	s.Rab = Exp(s.Rb, s.A3)
	s.State = SMPExpect1
	return eq(s.Rab, s.PaPb), nil
}
