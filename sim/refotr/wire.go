// Package refotr is an independent reference implementation of the OTR
// (Off-the-Record) messaging protocol, versions 2 and 3, written directly
// from the protocol specification. It is used as a test oracle.
//
// Design rules:
//   - only the Go standard library is imported by non-test code;
//   - all randomness comes from an io.Reader supplied by the caller;
//   - no map iteration influences any output, no clocks are read;
//   - every struct field is exported so that a harness can build deviant
//     messages and inspect all intermediate values.
package refotr

import (
	"encoding/binary"
	"errors"
	"math/big"
)

// ---------------------------------------------------------------------------
// Serialisation (spec "Data types"):
//   BYTE 1, SHORT 2, INT 4 bytes, big-endian.
//   DATA  = INT length + bytes.
//   MPI   = DATA holding the minimal-length big-endian magnitude
//           (no leading zero byte; zero has length 0).
//   MAC   = 20 bytes, CTR = 8 bytes.
// ---------------------------------------------------------------------------

// PutShort appends a 2-byte big-endian value.
func PutShort(b []byte, v uint16) []byte {
	return append(b, byte(v>>8), byte(v))
}

// PutInt appends a 4-byte big-endian value.
func PutInt(b []byte, v uint32) []byte {
	return append(b, byte(v>>24), byte(v>>16), byte(v>>8), byte(v))
}

// PutData appends a DATA value (INT length followed by the bytes).
func PutData(b, d []byte) []byte {
	b = PutInt(b, uint32(len(d)))
	return append(b, d...)
}

// PutMPI appends an MPI: the minimal big-endian magnitude, length-prefixed.
// big.Int.Bytes() already yields the minimal representation (empty for 0).
func PutMPI(b []byte, v *big.Int) []byte {
	if v == nil {
		return PutInt(b, 0)
	}
	return PutData(b, v.Bytes())
}

// MPIBytes returns the MPI serialisation of v as a fresh slice.
func MPIBytes(v *big.Int) []byte { return PutMPI(nil, v) }

// Errors reported by Reader.
var (
	ErrShort      = errors.New("refotr: truncated input")
	ErrNonMinimal = errors.New("refotr: MPI with leading zero byte")
)

// Reader is a strict deserialiser with a sticky error: after the first
// failure every accessor returns a zero value and Err stays set.
type Reader struct {
	B   []byte
	Err error
}

func (r *Reader) take(n int) []byte {
	if r.Err != nil {
		return nil
	}
	if n < 0 || n > len(r.B) {
		r.Err = ErrShort
		return nil
	}
	out := r.B[:n:n]
	r.B = r.B[n:]
	return out
}

// Byte reads a BYTE.
func (r *Reader) Byte() byte {
	b := r.take(1)
	if b == nil {
		return 0
	}
	return b[0]
}

// Short reads a SHORT.
func (r *Reader) Short() uint16 {
	b := r.take(2)
	if b == nil {
		return 0
	}
	return binary.BigEndian.Uint16(b)
}

// Int reads an INT.
func (r *Reader) Int() uint32 {
	b := r.take(4)
	if b == nil {
		return 0
	}
	return binary.BigEndian.Uint32(b)
}

// Fixed reads exactly n bytes (a copy).
func (r *Reader) Fixed(n int) []byte {
	b := r.take(n)
	if b == nil {
		if r.Err == nil && n == 0 {
			return []byte{}
		}
		return nil
	}
	return append([]byte{}, b...)
}

// Data reads a DATA value (a copy of the bytes; never nil on success).
func (r *Reader) Data() []byte {
	n := r.Int()
	if r.Err != nil {
		return nil
	}
	if uint64(n) > uint64(len(r.B)) {
		r.Err = ErrShort
		return nil
	}
	return r.Fixed(int(n))
}

// MPI reads an MPI strictly: an encoding with a leading zero byte is not the
// minimal-length encoding the spec mandates and is rejected.
func (r *Reader) MPI() *big.Int {
	d := r.Data()
	if r.Err != nil {
		return nil
	}
	if len(d) > 0 && d[0] == 0 {
		r.Err = ErrNonMinimal
		return nil
	}
	return new(big.Int).SetBytes(d)
}

// MPILoose reads an MPI and tolerates leading zero bytes.
func (r *Reader) MPILoose() *big.Int {
	d := r.Data()
	if r.Err != nil {
		return nil
	}
	return new(big.Int).SetBytes(d)
}

// Rest returns (and consumes) everything that is left.
func (r *Reader) Rest() []byte {
	if r.Err != nil {
		return nil
	}
	out := append([]byte{}, r.B...)
	r.B = r.B[len(r.B):]
	return out
}

// Done reports whether parsing succeeded and consumed every byte.
func (r *Reader) Done() bool { return r.Err == nil && len(r.B) == 0 }

// ---------------------------------------------------------------------------
// Diffie-Hellman group: RFC 3526 group 5 (1536-bit MODP), generator 2.
// ---------------------------------------------------------------------------

const primeHex = "FFFFFFFFFFFFFFFFC90FDAA22168C234C4C6628B80DC1CD1" +
	"29024E088A67CC74020BBEA63B139B22514A08798E3404DD" +
	"EF9519B3CD3A431B302B0A6DF25F14374FE1356D6D51C245" +
	"E485B576625E7EC6F44C42E9A637ED6B0BFF5CB6F406B7ED" +
	"EE386BFB5A899FA5AE9F24117C4B1FE649286651ECE45B3D" +
	"C2007CB8A163BF0598DA48361C55D39A69163FA8FD24CF5F" +
	"83655D23DCA3AD961C62F356208552BB9ED529077096966D" +
	"670C354E4ABC9804F1746C08CA237327FFFFFFFFFFFFFFFF"

// P is the group modulus, Q = (P-1)/2 the order of the subgroup, G = 2.
var (
	P, Q, G *big.Int
	pMinus2 *big.Int
	one     = big.NewInt(1)
	two     = big.NewInt(2)
)

func init() {
	var ok bool
	P, ok = new(big.Int).SetString(primeHex, 16)
	if !ok || P.BitLen() != 1536 {
		panic("refotr: bad prime")
	}
	Q = new(big.Int).Rsh(new(big.Int).Sub(P, one), 1)
	G = big.NewInt(2)
	pMinus2 = new(big.Int).Sub(P, two)
}

// InRange implements the spec check on every received group element:
// 2 <= v <= p-2.
func InRange(v *big.Int) bool {
	return v != nil && v.Cmp(two) >= 0 && v.Cmp(pMinus2) <= 0
}

// InRangeQ implements the spec check on SMP "D" values: 1 <= v < q.
func InRangeQ(v *big.Int) bool {
	return v != nil && v.Sign() > 0 && v.Cmp(Q) < 0
}

// Exp returns b^e mod P.
func Exp(b, e *big.Int) *big.Int { return new(big.Int).Exp(b, e, P) }

// MulP returns a*b mod P.
func MulP(a, b *big.Int) *big.Int {
	z := new(big.Int).Mul(a, b)
	return z.Mod(z, P)
}

// InvP returns a^-1 mod P.
func InvP(a *big.Int) *big.Int { return new(big.Int).ModInverse(a, P) }

// DHSecretLen is the length in bytes of DH private exponents (320 bits).
const DHSecretLen = 40
