package refotr

import (
	"bytes"
	"encoding/base64"
	"errors"
	"fmt"
	"math/big"
)

// Message type bytes (spec "Message types").
const (
	TypeDHCommit  byte = 0x02
	TypeData      byte = 0x03
	TypeDHKey     byte = 0x0a
	TypeRevealSig byte = 0x11
	TypeSignature byte = 0x12
)

// Flag bits of a data message.
const FlagIgnoreUnreadable byte = 0x01

// MinInstanceTag is the smallest valid instance tag (v3); smaller non-zero
// values are reserved and 0 means "unknown" (receiver tag only).
const MinInstanceTag uint32 = 0x100

// Header is the common message header:
//
//	SHORT version, BYTE type, and for v3 INT sender tag, INT receiver tag.
type Header struct {
	Version     uint16
	Type        byte
	SenderTag   uint32
	ReceiverTag uint32
}

// Bytes serialises the header. Instance tags are emitted for version >= 3
// only (version 2 has none).
func (h Header) Bytes() []byte {
	b := PutShort(nil, h.Version)
	b = append(b, h.Type)
	if h.Version >= 3 {
		b = PutInt(b, h.SenderTag)
		b = PutInt(b, h.ReceiverTag)
	}
	return b
}

// DHCommit: DATA AES128-CTR_r(MPI g^x), DATA SHA-256(MPI g^x).
type DHCommit struct {
	Header
	EncGx  []byte
	HashGx []byte
}

// DHKey: MPI g^y.
type DHKey struct {
	Header
	Gy *big.Int
}

// RevealSig: DATA r, DATA AES-CTR_c(X_B), MAC.
type RevealSig struct {
	Header
	R      []byte
	EncSig []byte
	MAC    []byte
}

// Signature: DATA AES-CTR_c'(X_A), MAC.
type Signature struct {
	Header
	EncSig []byte
	MAC    []byte
}

// Data is a data message:
//
//	BYTE flags, INT sender keyid, INT recipient keyid, MPI next DH,
//	CTR top half, DATA ciphertext, MAC, DATA old MAC keys.
//
// Trailing holds bytes after the old-MAC-keys field; it is always empty for
// messages accepted by ParseRaw and exists so deviant messages can be built.
type Data struct {
	Header
	Flags          byte
	SenderKeyID    uint32
	RecipientKeyID uint32
	NextDH         *big.Int
	Ctr            [8]byte
	Enc            []byte
	MAC            []byte
	OldMACKeys     []byte
	Trailing       []byte
}

// Raw returns header + body, exactly the bytes that get armoured.
func (m *DHCommit) Raw() []byte {
	b := m.Header.Bytes()
	b = PutData(b, m.EncGx)
	b = PutData(b, m.HashGx)
	return b
}

// Raw returns header + body.
func (m *DHKey) Raw() []byte {
	return PutMPI(m.Header.Bytes(), m.Gy)
}

// Raw returns header + body.
func (m *RevealSig) Raw() []byte {
	b := m.Header.Bytes()
	b = PutData(b, m.R)
	b = PutData(b, m.EncSig)
	return append(b, m.MAC...)
}

// Raw returns header + body.
func (m *Signature) Raw() []byte {
	b := PutData(m.Header.Bytes(), m.EncSig)
	return append(b, m.MAC...)
}

// AuthBytes returns the part of a data message covered by its MAC: from the
// protocol version SHORT through the end of the ciphertext DATA.
func (m *Data) AuthBytes() []byte {
	b := m.Header.Bytes()
	b = append(b, m.Flags)
	b = PutInt(b, m.SenderKeyID)
	b = PutInt(b, m.RecipientKeyID)
	b = PutMPI(b, m.NextDH)
	b = append(b, m.Ctr[:]...)
	b = PutData(b, m.Enc)
	return b
}

// Raw returns header + body.
func (m *Data) Raw() []byte {
	b := m.AuthBytes()
	b = append(b, m.MAC...)
	b = PutData(b, m.OldMACKeys)
	return append(b, m.Trailing...)
}

// ---------------------------------------------------------------------------
// Armour: "?OTR:" + base64-std(message) + "."
// ---------------------------------------------------------------------------

var (
	armorPrefix = []byte("?OTR:")
	armorSuffix = []byte(".")
)

// Armor wraps raw message bytes for transport.
func Armor(raw []byte) []byte {
	out := make([]byte, 0, len(armorPrefix)+base64.StdEncoding.EncodedLen(len(raw))+1)
	out = append(out, armorPrefix...)
	out = append(out, base64.StdEncoding.EncodeToString(raw)...)
	return append(out, '.')
}

// IsArmored reports whether msg starts with the "?OTR:" prefix.
func IsArmored(msg []byte) bool { return bytes.HasPrefix(msg, armorPrefix) }

// Dearmor is strict: the message must be exactly "?OTR:" + padded standard
// base64 (canonical, no embedded whitespace or line breaks) + ".".
func Dearmor(msg []byte) ([]byte, error) {
	if !bytes.HasPrefix(msg, armorPrefix) {
		return nil, errors.New("refotr: armour: missing ?OTR: prefix")
	}
	if !bytes.HasSuffix(msg, armorSuffix) {
		return nil, errors.New("refotr: armour: missing '.' terminator")
	}
	body := msg[len(armorPrefix) : len(msg)-1]
	// encoding/base64 silently skips CR and LF; a strict parser must not.
	if bytes.ContainsAny(body, "\r\n") {
		return nil, errors.New("refotr: armour: line break inside base64")
	}
	if len(body)%4 != 0 {
		return nil, errors.New("refotr: armour: base64 length not a multiple of 4")
	}
	raw, err := base64.StdEncoding.Strict().DecodeString(string(body))
	if err != nil {
		return nil, fmt.Errorf("refotr: armour: %v", err)
	}
	return raw, nil
}

// ---------------------------------------------------------------------------
// Strict parsing
// ---------------------------------------------------------------------------

// ParseHeader reads the header and returns the reader positioned at the body.
// Strict: the version must be 2 or 3.
func ParseHeader(raw []byte) (Header, *Reader, error) {
	r := &Reader{B: raw}
	var h Header
	h.Version = r.Short()
	h.Type = r.Byte()
	if r.Err != nil {
		return h, r, errors.New("refotr: parse: truncated header")
	}
	if h.Version != 2 && h.Version != 3 {
		return h, r, fmt.Errorf("refotr: parse: unsupported version %d", h.Version)
	}
	if h.Version == 3 {
		h.SenderTag = r.Int()
		h.ReceiverTag = r.Int()
		if r.Err != nil {
			return h, r, errors.New("refotr: parse: truncated instance tags")
		}
	}
	return h, r, nil
}

// ParseRaw strictly parses a de-armoured message and returns one of
// *DHCommit, *DHKey, *RevealSig, *Signature, *Data.
//
// It is an error if: the version is not 2 or 3; the type is unknown; a fixed
// length is wrong (hash 32, r 16, MAC 20, old MAC keys a multiple of 20); an
// MPI is not minimally encoded; any field is truncated; bytes are left over.
// Semantic checks (ranges, tags, key ids) are left to the caller.
func ParseRaw(raw []byte) (interface{}, error) {
	h, r, err := ParseHeader(raw)
	if err != nil {
		return nil, err
	}
	var out interface{}
	switch h.Type {
	case TypeDHCommit:
		m := &DHCommit{Header: h}
		m.EncGx = r.Data()
		m.HashGx = r.Data()
		if r.Err == nil && len(m.HashGx) != 32 {
			return nil, fmt.Errorf("refotr: parse: DH-Commit hash length %d != 32", len(m.HashGx))
		}
		out = m
	case TypeDHKey:
		m := &DHKey{Header: h}
		m.Gy = r.MPI()
		out = m
	case TypeRevealSig:
		m := &RevealSig{Header: h}
		m.R = r.Data()
		m.EncSig = r.Data()
		m.MAC = r.Fixed(20)
		if r.Err == nil && len(m.R) != 16 {
			return nil, fmt.Errorf("refotr: parse: Reveal-Signature r length %d != 16", len(m.R))
		}
		out = m
	case TypeSignature:
		m := &Signature{Header: h}
		m.EncSig = r.Data()
		m.MAC = r.Fixed(20)
		out = m
	case TypeData:
		m := &Data{Header: h}
		m.Flags = r.Byte()
		m.SenderKeyID = r.Int()
		m.RecipientKeyID = r.Int()
		m.NextDH = r.MPI()
		copy(m.Ctr[:], r.Fixed(8))
		m.Enc = r.Data()
		m.MAC = r.Fixed(20)
		m.OldMACKeys = r.Data()
		if r.Err == nil && len(m.OldMACKeys)%20 != 0 {
			return nil, fmt.Errorf("refotr: parse: old MAC keys length %d not a multiple of 20", len(m.OldMACKeys))
		}
		out = m
	default:
		return nil, fmt.Errorf("refotr: parse: unknown message type 0x%02x", h.Type)
	}
	if r.Err != nil {
		return nil, fmt.Errorf("refotr: parse: type 0x%02x: %v", h.Type, r.Err)
	}
	if !r.Done() {
		return nil, fmt.Errorf("refotr: parse: type 0x%02x: %d trailing bytes", h.Type, len(r.B))
	}
	return out, nil
}

// ParseArmored = Dearmor + ParseRaw.
func ParseArmored(msg []byte) (interface{}, error) {
	raw, err := Dearmor(msg)
	if err != nil {
		return nil, err
	}
	return ParseRaw(raw)
}

// RawOf returns the wire bytes of any message returned by ParseRaw.
func RawOf(m interface{}) []byte {
	switch v := m.(type) {
	case *DHCommit:
		return v.Raw()
	case *DHKey:
		return v.Raw()
	case *RevealSig:
		return v.Raw()
	case *Signature:
		return v.Raw()
	case *Data:
		return v.Raw()
	}
	return nil
}

// HeaderOf returns the header of any message returned by ParseRaw.
func HeaderOf(m interface{}) Header {
	switch v := m.(type) {
	case *DHCommit:
		return v.Header
	case *DHKey:
		return v.Header
	case *RevealSig:
		return v.Header
	case *Signature:
		return v.Header
	case *Data:
		return v.Header
	}
	return Header{}
}

// ---------------------------------------------------------------------------
// Plaintext of data messages: text [0x00 TLV*]
// ---------------------------------------------------------------------------

// TLV record types.
const (
	TLVPadding      uint16 = 0
	TLVDisconnected uint16 = 1
	TLVSMP1         uint16 = 2
	TLVSMP2         uint16 = 3
	TLVSMP3         uint16 = 4
	TLVSMP4         uint16 = 5
	TLVSMPAbort     uint16 = 6
	TLVSMP1Q        uint16 = 7
	TLVExtraKey     uint16 = 8
)

// TLV is SHORT type, SHORT length, value.
type TLV struct {
	Type  uint16
	Value []byte
}

// Bytes serialises one TLV.
func (t TLV) Bytes() []byte {
	b := PutShort(nil, t.Type)
	b = PutShort(b, uint16(len(t.Value)))
	return append(b, t.Value...)
}

// BuildPlain returns text, followed (only if there are TLVs) by 0x00 and the
// TLVs. The text must not contain a NUL byte.
func BuildPlain(text []byte, tlvs []TLV) []byte {
	if len(tlvs) == 0 {
		return append([]byte{}, text...)
	}
	return BuildPlainNul(text, tlvs)
}

// BuildPlainNul is like BuildPlain but always appends the 0x00 separator.
func BuildPlainNul(text []byte, tlvs []TLV) []byte {
	b := append([]byte{}, text...)
	b = append(b, 0)
	for _, t := range tlvs {
		b = append(b, t.Bytes()...)
	}
	return b
}

// ParsePlain splits a decrypted plaintext into the human-readable part and
// TLVs. A TLV whose header or value is truncated is an error.
func ParsePlain(b []byte) (text []byte, tlvs []TLV, err error) {
	i := bytes.IndexByte(b, 0)
	if i < 0 {
		return append([]byte{}, b...), nil, nil
	}
	text = append([]byte{}, b[:i]...)
	r := &Reader{B: b[i+1:]}
	for len(r.B) > 0 {
		var t TLV
		t.Type = r.Short()
		n := r.Short()
		t.Value = r.Fixed(int(n))
		if r.Err != nil {
			return text, tlvs, errors.New("refotr: plaintext: truncated TLV")
		}
		tlvs = append(tlvs, t)
	}
	return text, tlvs, nil
}

// ---------------------------------------------------------------------------
// Query messages, whitespace tags, error messages
// ---------------------------------------------------------------------------

// ErrorPrefix is the prefix of OTR error messages.
const ErrorPrefix = "?OTR Error:"

// BuildError builds an OTR error message.
func BuildError(text string) []byte { return []byte(ErrorPrefix + text) }

// IsError reports whether msg is an OTR error message.
func IsError(msg []byte) bool { return bytes.HasPrefix(msg, []byte(ErrorPrefix)) }

// BuildQuery builds "?OTRv<versions>?", e.g. BuildQuery("23") = "?OTRv23?".
func BuildQuery(versions string) []byte {
	return []byte("?OTRv" + versions + "?")
}

// BuildQueryV1 builds the forms that also offer version 1: "?OTR?" when
// versions is empty, else "?OTR?v<versions>?".
func BuildQueryV1(versions string) []byte {
	if versions == "" {
		return []byte("?OTR?")
	}
	return []byte("?OTR?v" + versions + "?")
}

// ParseQuery recognises a query tag anywhere in msg:
//
//	"?OTR?"            version 1 only
//	"?OTRv<digits>?"   the listed versions
//	"?OTR?v<digits>?"  version 1 plus the listed versions
//
// Versions are returned in order of appearance without duplicates;
// characters of the version string that are not digits are ignored (they
// name versions we do not know). A "v" form that lacks the terminating "?"
// is not a query.
func ParseQuery(msg []byte) (versions []int, ok bool) {
	i := bytes.Index(msg, []byte("?OTR"))
	for i >= 0 {
		rest := msg[i+4:]
		if v, good := parseQueryTail(rest); good {
			return v, true
		}
		j := bytes.Index(rest, []byte("?OTR"))
		if j < 0 {
			break
		}
		i = i + 4 + j
	}
	return nil, false
}

func parseQueryTail(rest []byte) ([]int, bool) {
	var versions []int
	add := func(v int) {
		for _, o := range versions {
			if o == v {
				return
			}
		}
		versions = append(versions, v)
	}
	if len(rest) == 0 {
		return nil, false
	}
	switch rest[0] {
	case '?':
		add(1)
		rest = rest[1:]
		if len(rest) == 0 || rest[0] != 'v' {
			return versions, true // "?OTR?"
		}
	case 'v':
	default:
		return nil, false
	}
	rest = rest[1:] // skip 'v'
	end := bytes.IndexByte(rest, '?')
	if end < 0 {
		return nil, false
	}
	for _, c := range rest[:end] {
		if c >= '0' && c <= '9' {
			add(int(c - '0'))
		}
	}
	return versions, true
}

// Whitespace tag pieces.
const (
	WhitespaceBase = " \t  \t\t\t\t \t \t \t  "
	WhitespaceV1   = " \t \t  \t "
	WhitespaceV2   = "  \t\t  \t "
	WhitespaceV3   = "  \t\t  \t\t"
)

// WhitespaceTag builds the 16-byte base tag followed by the requested
// version tags (v2 first, then v3).
func WhitespaceTag(v2, v3 bool) []byte {
	b := []byte(WhitespaceBase)
	if v2 {
		b = append(b, WhitespaceV2...)
	}
	if v3 {
		b = append(b, WhitespaceV3...)
	}
	return b
}

// FindWhitespaceTag looks for the base tag anywhere in msg. After it, any
// number of 8-byte groups consisting solely of spaces and tabs are version
// tags: known ones are reported, unknown ones are skipped. The whole tag is
// removed from the returned message.
func FindWhitespaceTag(msg []byte) (stripped []byte, versions []int, found bool) {
	i := bytes.Index(msg, []byte(WhitespaceBase))
	if i < 0 {
		return msg, nil, false
	}
	j := i + len(WhitespaceBase)
	for j+8 <= len(msg) {
		g := msg[j : j+8]
		if !onlySpaceTab(g) {
			break
		}
		v := 0
		switch string(g) {
		case WhitespaceV1:
			v = 1
		case WhitespaceV2:
			v = 2
		case WhitespaceV3:
			v = 3
		}
		if v != 0 {
			dup := false
			for _, o := range versions {
				dup = dup || o == v
			}
			if !dup {
				versions = append(versions, v)
			}
		}
		j += 8
	}
	stripped = append(append([]byte{}, msg[:i]...), msg[j:]...)
	return stripped, versions, true
}

func onlySpaceTab(b []byte) bool {
	for _, c := range b {
		if c != ' ' && c != '\t' {
			return false
		}
	}
	return true
}
