package refotr_test

import (
	"bytes"
	"fmt"
	"math/big"
	"testing"

	"github.com/coyim/otr3"

	. "verifsim/refotr"
)

// otrSide wraps a real otr3.Conversation and records everything it emits.
type otrSide struct {
	t       *testing.T
	c       *otr3.Conversation
	emitted [][]byte
	events  []otr3.SMPEvent
	asked   []string
	symKeys [][]byte
	symUse  []uint32
}

func (s *otrSide) HandleSMPEvent(e otr3.SMPEvent, pp int, question string) {
	s.events = append(s.events, e)
	if e == otr3.SMPEventAskForAnswer {
		s.asked = append(s.asked, question)
	}
}

func (s *otrSide) HandleErrorMessage(ec otr3.ErrorCode) []byte {
	return []byte(ec.String())
}

func (s *otrSide) ReceivedSymmetricKey(usage uint32, usageData []byte, symkey []byte) {
	s.symUse = append(s.symUse, usage)
	s.symKeys = append(s.symKeys, append([]byte{}, symkey...))
}

func newOtrSide(t *testing.T, version uint16, key *otr3.DSAPrivateKey, seed string) *otrSide {
	c := &otr3.Conversation{}
	if version == 2 {
		c.Policies.AllowV2()
	} else {
		c.Policies.AllowV3()
	}
	c.SetOurKeys([]otr3.PrivateKey{key})
	c.Rand = newRand(seed)
	s := &otrSide{t: t, c: c}
	c.SetSMPEventHandler(s)
	c.SetReceivedKeyHandler(s)
	c.SetErrorMessageHandler(s)
	return s
}

func (s *otrSide) record(msgs []otr3.ValidMessage) [][]byte {
	var out [][]byte
	for _, m := range msgs {
		b := append([]byte{}, m...)
		s.emitted = append(s.emitted, b)
		out = append(out, b)
	}
	return out
}

func (s *otrSide) recv(msg []byte) (plain []byte, out [][]byte) {
	s.t.Helper()
	p, toSend, err := s.c.Receive(otr3.ValidMessage(msg))
	if err != nil {
		s.t.Fatalf("otr3 Receive: %v", err)
	}
	return []byte(p), s.record(toSend)
}

func (s *otrSide) send(text string) [][]byte {
	s.t.Helper()
	toSend, err := s.c.Send(otr3.ValidMessage(text))
	if err != nil {
		s.t.Fatalf("otr3 Send: %v", err)
	}
	return s.record(toSend)
}

func (s *otrSide) lastEvent() otr3.SMPEvent {
	if len(s.events) == 0 {
		return -1
	}
	return s.events[len(s.events)-1]
}

// checkEmitted is test 4: every armoured message otr3 emitted passes the
// strict parser and re-serialises byte-identically.
func (s *otrSide) checkEmitted(version uint16) {
	s.t.Helper()
	n := 0
	for i, m := range s.emitted {
		if !IsArmored(m) {
			continue
		}
		n++
		parsed, err := ParseArmored(m)
		if err != nil {
			s.t.Errorf("otr3 message %d fails strict parse: %v\n%s", i, err, m)
			continue
		}
		if !bytes.Equal(Armor(RawOf(parsed)), m) {
			s.t.Errorf("otr3 message %d does not re-serialise identically", i)
		}
		if HeaderOf(parsed).Version != version {
			s.t.Errorf("otr3 message %d has version %d", i, HeaderOf(parsed).Version)
		}
	}
	if n == 0 {
		s.t.Error("no armoured messages recorded")
	}
}

// shuttle delivers msgs to the Peer, its replies to otr3, and so on.
func shuttle(t *testing.T, p *Peer, o *otrSide, toPeer [][]byte, toOtr [][]byte) {
	t.Helper()
	for i := 0; len(toPeer)+len(toOtr) > 0; i++ {
		if i > 20 {
			t.Fatal("conversation does not settle")
		}
		var nextPeer, nextOtr [][]byte
		for _, m := range toPeer {
			out, err := p.Receive(m)
			if err != nil {
				t.Fatalf("Peer.Receive: %v\nmessage: %s", err, m)
			}
			nextOtr = append(nextOtr, out...)
		}
		for _, m := range toOtr {
			_, out := o.recv(m)
			nextPeer = append(nextPeer, out...)
		}
		toPeer, toOtr = nextPeer, nextOtr
	}
}

func checkInteropSession(t *testing.T, p *Peer, o *otrSide, key *otr3.DSAPrivateKey) {
	t.Helper()
	if !p.Encrypted || !o.c.IsEncrypted() {
		t.Fatalf("not encrypted: peer=%v otr3=%v", p.Encrypted, o.c.IsEncrypted())
	}
	if p.SSID != o.c.GetSSID() {
		t.Fatalf("SSID mismatch: %x vs %x", p.SSID, o.c.GetSSID())
	}
	if !bytes.Equal(Fingerprint(p.TheirPub), key.PublicKey().Fingerprint()) {
		t.Fatal("Peer learnt the wrong public key / fingerprint computation differs")
	}
	if !bytes.Equal(o.c.GetTheirKey().Fingerprint(), Fingerprint(&p.Priv.PublicKey)) {
		t.Fatal("otr3 learnt the wrong public key / fingerprint computation differs")
	}
	if p.Version == 3 {
		if p.TheirTag != o.c.GetOurInstanceTag() || p.OurTag != o.c.GetTheirInstanceTag() {
			t.Fatalf("instance tags: peer sees %x/%x, otr3 %x/%x", p.OurTag, p.TheirTag, o.c.GetTheirInstanceTag(), o.c.GetOurInstanceTag())
		}
	}
}

type interopSetup struct {
	name string
	run  func(t *testing.T, p *Peer, o *otrSide)
}

var interopSetups = []interopSetup{
	{"peer-initiates", func(t *testing.T, p *Peer, o *otrSide) {
		c, err := p.StartAKE()
		if err != nil {
			t.Fatal(err)
		}
		shuttle(t, p, o, nil, [][]byte{c})
		if !p.Initiator {
			t.Fatal("Peer must be the initiator")
		}
	}},
	{"otr3-initiates-on-peer-query", func(t *testing.T, p *Peer, o *otrSide) {
		shuttle(t, p, o, nil, [][]byte{p.Query()})
		if p.Initiator {
			t.Fatal("otr3 must be the initiator")
		}
	}},
	{"peer-initiates-on-otr3-query", func(t *testing.T, p *Peer, o *otrSide) {
		q := o.record([]otr3.ValidMessage{o.c.QueryMessage()})
		if vs, ok := ParseQuery(q[0]); !ok || len(vs) == 0 {
			t.Fatalf("otr3 query %q not recognised", q[0])
		}
		shuttle(t, p, o, q, nil)
		if !p.Initiator {
			t.Fatal("Peer must be the initiator")
		}
	}},
}

func forEachInterop(t *testing.T, f func(t *testing.T, version uint16, p *Peer, o *otrSide)) {
	ka, kb := testKeys(t)
	for _, version := range []uint16{2, 3} {
		for _, setup := range interopSetups {
			name := fmt.Sprintf("v%d/%s", version, setup.name)
			t.Run(name, func(t *testing.T) {
				p := NewPeer(version, &ka.PrivateKey, newRand(name+" peer"), 0x0badcafe)
				o := newOtrSide(t, version, kb, name+" otr3")
				setup.run(t, p, o)
				checkInteropSession(t, p, o, kb)
				f(t, version, p, o)
				o.checkEmitted(version)
			})
		}
	}
}

// peerToOtr sends text from the Peer and checks otr3 delivers it exactly.
func peerToOtr(t *testing.T, p *Peer, o *otrSide, text string) {
	t.Helper()
	m, err := p.Send([]byte(text), nil, 0)
	if err != nil {
		t.Fatal(err)
	}
	plain, out := o.recv(m)
	if string(plain) != text {
		t.Fatalf("otr3 delivered %q, want %q", plain, text)
	}
	deliverHeartbeats(t, p, out)
}

// deliverHeartbeats hands otr3's unsolicited replies to a data message to
// the Peer. otr3 sends a heartbeat (empty text, ignore-unreadable flag) when
// it has not sent anything for a while; nothing else is acceptable here.
func deliverHeartbeats(t *testing.T, p *Peer, out [][]byte) {
	t.Helper()
	for _, m := range out {
		n := len(p.Inbox)
		reply, err := p.Receive(m)
		if err != nil || len(reply) != 0 || len(p.Inbox) != n+1 {
			t.Fatalf("heartbeat not accepted: %v", err)
		}
		d := p.Inbox[n]
		if len(d.Text) != 0 || d.Flags&FlagIgnoreUnreadable == 0 {
			t.Fatalf("otr3 replied to a data message with a non-heartbeat: %+v", d)
		}
		for _, tl := range d.TLVs {
			if tl.Type != TLVPadding {
				t.Fatalf("heartbeat carries TLV type %d", tl.Type)
			}
		}
	}
}

// otrToPeer sends text from otr3 and checks the Peer delivers it exactly.
func otrToPeer(t *testing.T, p *Peer, o *otrSide, text string) {
	t.Helper()
	msgs := o.send(text)
	if len(msgs) != 1 {
		t.Fatalf("otr3 produced %d messages", len(msgs))
	}
	n := len(p.Inbox)
	out, err := p.Receive(msgs[0])
	if err != nil {
		t.Fatalf("Peer.Receive: %v", err)
	}
	if len(out) != 0 || len(p.Inbox) != n+1 {
		t.Fatal("Peer did not deliver exactly one message")
	}
	d := p.Inbox[n]
	if string(d.Text) != text || !d.Encrypted {
		t.Fatalf("Peer delivered %q, want %q", d.Text, text)
	}
	for _, tl := range d.TLVs {
		if tl.Type != TLVPadding {
			t.Fatalf("unexpected TLV type %d in text message", tl.Type)
		}
	}
}

// Test 3a: AKE in every role/version combination, then >= 20 data messages
// each way with key rotations.
func TestInteropAKEAndData(t *testing.T) {
	forEachInterop(t, func(t *testing.T, version uint16, p *Peer, o *otrSide) {
		rnd := newRand("interop pattern")
		nP, nO := 0, 0
		for i := 0; nP < 25 || nO < 25; i++ {
			// Bursts of 1-3 messages from a random side: exercises both
			// "same keys again" and ratchet steps.
			burst := 1 + rnd.Uint(3)
			if rnd.Uint(2) == 0 {
				for j := 0; j < burst; j++ {
					peerToOtr(t, p, o, fmt.Sprintf("peer->otr3 #%d.%d éß", i, j))
					nP++
				}
			} else {
				for j := 0; j < burst; j++ {
					otrToPeer(t, p, o, fmt.Sprintf("otr3->peer #%d.%d éß", i, j))
					nO++
				}
			}
		}
		if p.OurKeyID < 8 || p.TheirKeyID < 8 {
			t.Fatalf("too few key rotations: our %d their %d", p.OurKeyID, p.TheirKeyID)
		}
		// Empty text and a long text.
		peerToOtr(t, p, o, "")
		otrToPeer(t, p, o, string(bytes.Repeat([]byte("long text "), 300)))
		peerToOtr(t, p, o, string(bytes.Repeat([]byte("long text "), 300)))
	})
}

// Delayed delivery: messages encrypted to the previous key generation must
// still be accepted by both implementations.
func TestInteropDelayedDelivery(t *testing.T) {
	forEachInterop(t, func(t *testing.T, version uint16, p *Peer, o *otrSide) {
		for round := 0; round < 6; round++ {
			// Both sides send before seeing the other's message.
			pm, err := p.Send([]byte(fmt.Sprintf("p%d", round)), nil, 0)
			if err != nil {
				t.Fatal(err)
			}
			om := o.send(fmt.Sprintf("o%d", round))
			plain, hb := o.recv(pm)
			if string(plain) != fmt.Sprintf("p%d", round) {
				t.Fatalf("otr3 delivered %q", plain)
			}
			if _, err := p.Receive(om[0]); err != nil {
				t.Fatal(err)
			}
			deliverHeartbeats(t, p, hb)
			if got := string(p.Inbox[len(p.Inbox)-1].Text); got != fmt.Sprintf("o%d", round) {
				t.Fatalf("Peer delivered %q", got)
			}
		}
	})
}

// macLabel names a MAC key of one pairing from the Peer's point of view.
type macLabel struct {
	our, their uint32
	send       bool // true: the Peer's sending MAC key (otr3's receiving key)
	key        []byte
}

// pairMACs lists both MAC keys of all (up to four) pairings the Peer holds.
func pairMACs(p *Peer) []macLabel {
	var out []macLabel
	ours := []struct {
		id uint32
		k  DHPair
	}{{p.OurKeyID - 1, p.OurPrev}, {p.OurKeyID, p.OurCur}}
	theirs := []struct {
		id uint32
		k  *big.Int
	}{{p.TheirKeyID - 1, p.TheirPrev}, {p.TheirKeyID, p.TheirCur}}
	for _, o := range ours {
		for _, th := range theirs {
			if o.k.Priv == nil || th.k == nil {
				continue
			}
			k := DeriveDataKeys(o.k.Priv, o.k.Pub, th.k)
			out = append(out, macLabel{o.id, th.id, true, k.SendMAC}, macLabel{o.id, th.id, false, k.RecvMAC})
		}
	}
	return out
}

// MAC-key disclosure by otr3, observed through the oracle: every revealed
// key must be a MAC key of a pairing of this session, and must no longer be
// acceptable to the Peer (the key generation it belongs to is retired on
// the Peer's side once this very message has been processed). The Peer's own
// disclosures are exercised by the same traffic (otr3 accepts the messages).
func TestInteropRevealedMACKeys(t *testing.T) {
	forEachInterop(t, func(t *testing.T, version uint16, p *Peer, o *otrSide) {
		var known []macLabel
		remember := func() {
			for _, l := range pairMACs(p) {
				dup := false
				for _, k := range known {
					dup = dup || bytes.Equal(k.key, l.key)
				}
				if !dup {
					known = append(known, l)
				}
			}
		}
		remember()
		nPeerSend, nPeerRecv, nUnknown, nLive, peerRevealed := 0, 0, 0, 0, 0
		nDup, nNeverUsed := 0, 0
		var usedForSend, seen [][]byte
		has := func(set [][]byte, k []byte) bool {
			for _, s := range set {
				if bytes.Equal(s, k) {
					return true
				}
			}
			return false
		}
		rnd := newRand("mac pattern")
		for i := 0; i < 30; i++ {
			if rnd.Uint(2) == 0 {
				sk, _ := p.SendKeys()
				usedForSend = append(usedForSend, sk.SendMAC)
				m, err := p.Send([]byte(fmt.Sprintf("a%d", i)), nil, 0)
				if err != nil {
					t.Fatal(err)
				}
				d, _ := ParseArmored(m)
				peerRevealed += len(d.(*Data).OldMACKeys) / 20
				plain, hb := o.recv(m)
				if string(plain) != fmt.Sprintf("a%d", i) {
					t.Fatalf("otr3 delivered %q", plain)
				}
				deliverHeartbeats(t, p, hb)
				remember()
				continue
			}
			msgs := o.send(fmt.Sprintf("b%d", i))
			m, err := ParseArmored(msgs[0])
			if err != nil {
				t.Fatal(err)
			}
			if _, err := p.Receive(msgs[0]); err != nil {
				t.Fatal(err)
			}
			remember()
			live := pairMACs(p)
			d := m.(*Data)
			for j := 0; j+20 <= len(d.OldMACKeys); j += 20 {
				key := d.OldMACKeys[j : j+20]
				var lab *macLabel
				for k := range known {
					if bytes.Equal(known[k].key, key) {
						lab = &known[k]
					}
				}
				switch {
				case lab == nil:
					nUnknown++
					t.Errorf("message %d: otr3 revealed a key that is no MAC key of this session", i)
				case lab.send:
					nPeerSend++
					if has(seen, key) {
						nDup++
					} else if !has(usedForSend, key) {
						nNeverUsed++
					}
					seen = append(seen, append([]byte{}, key...))
				default:
					nPeerRecv++
				}
				for _, l := range live {
					if !l.send && bytes.Equal(l.key, key) {
						nLive++
						t.Errorf("message %d: otr3 revealed MAC key (our %d, their %d) that the Peer would still accept", i, l.our, l.their)
					}
				}
			}
		}
		if nPeerSend == 0 {
			t.Error("otr3 never revealed any of its receiving MAC keys")
		}
		if peerRevealed == 0 {
			t.Error("the Peer never revealed a MAC key")
		}
		t.Logf("otr3 revealed %d of its receiving MAC keys (%d repeats, %d for pairings the Peer never sent with), %d of its sending MAC keys, %d unknown, %d still live; Peer revealed %d",
			nPeerSend, nDup, nNeverUsed, nPeerRecv, nUnknown, nLive, peerRevealed)
	})
}

// Test 3b: SMP, otr3 initiating, refotr SMPState responding.
func TestInteropSMPOtrInitiates(t *testing.T) {
	forEachInterop(t, func(t *testing.T, version uint16, p *Peer, o *otrSide) {
		for _, c := range []struct {
			question, so, sp string
			want             int
			event            otr3.SMPEvent
		}{
			{"", "shared secret", "shared secret", SMPSucceeded, otr3.SMPEventSuccess},
			{"what is it?", "shared secret", "shared secret", SMPSucceeded, otr3.SMPEventSuccess},
			{"", "secret A", "secret B", SMPFailed, otr3.SMPEventFailure},
			{"q?", "secret A", "secret a", SMPFailed, otr3.SMPEventFailure},
		} {
			peerToOtr(t, p, o, "before smp")
			msgs, err := o.c.StartAuthenticate(c.question, []byte(c.so))
			if err != nil {
				t.Fatal(err)
			}
			toPeer := o.record(msgs)
			var result = -1
			for step := 0; len(toPeer) > 0; step++ {
				if step > 4 {
					t.Fatal("SMP does not terminate")
				}
				var toOtr [][]byte
				for _, m := range toPeer {
					n := len(p.Inbox)
					if _, err := p.Receive(m); err != nil {
						t.Fatalf("Peer.Receive: %v", err)
					}
					for _, d := range p.Inbox[n:] {
						for _, tl := range d.TLVs {
							if tl.Type < TLVSMP1 || tl.Type > TLVSMP1Q {
								continue
							}
							if step == 0 {
								m1, err := ParseSMP1(tl)
								if err != nil {
									t.Fatalf("otr3 SMP1 fails strict parse: %v", err)
								}
								if m1.HasQuestion != (c.question != "") || string(m1.Question) != c.question {
									t.Fatalf("question %q/%v, want %q", m1.Question, m1.HasQuestion, c.question)
								}
							}
							out, r, err := p.SMPStep(tl, []byte(c.sp))
							if err != nil {
								t.Fatalf("SMPStep(type %d): %v", tl.Type, err)
							}
							if r == SMPAborted && result == SMPFailed {
								// Spec: after message 4 the initiator sends nothing.
								t.Logf("DEVIATION: otr3 as SMP initiator sent an abort TLV (value length %d) after message 4 reported a failed comparison", len(tl.Value))
							} else if r != SMPInProgress {
								result = r
							}
							if out != nil {
								toOtr = append(toOtr, out)
							}
						}
					}
				}
				toPeer = nil
				for _, m := range toOtr {
					_, out := o.recv(m)
					toPeer = append(toPeer, out...)
				}
			}
			if result != c.want {
				t.Fatalf("%+v: Peer result %d, want %d", c, result, c.want)
			}
			if o.lastEvent() != c.event {
				t.Fatalf("%+v: otr3 event %v, want %v (all: %v)", c, o.lastEvent(), c.event, o.events)
			}
			otrToPeer(t, p, o, "after smp")
		}
	})
}

// Test 3b: SMP, refotr SMPState initiating, otr3 responding.
func TestInteropSMPPeerInitiates(t *testing.T) {
	forEachInterop(t, func(t *testing.T, version uint16, p *Peer, o *otrSide) {
		for _, c := range []struct {
			question, so, sp string
			want             int
			event            otr3.SMPEvent
		}{
			{"", "shared secret", "shared secret", SMPSucceeded, otr3.SMPEventSuccess},
			{"what is it?", "shared secret", "shared secret", SMPSucceeded, otr3.SMPEventSuccess},
			{"", "secret A", "secret B", SMPFailed, otr3.SMPEventFailure},
			{"q?", "x", "y", SMPFailed, otr3.SMPEventFailure},
		} {
			otrToPeer(t, p, o, "before smp")
			m1, err := p.SMPStart([]byte(c.sp), []byte(c.question), c.question != "")
			if err != nil {
				t.Fatal(err)
			}
			nAsked := len(o.asked)
			_, out := o.recv(m1)
			if len(out) != 0 {
				t.Fatal("otr3 answered SMP1 before the secret was provided")
			}
			if c.question != "" {
				if o.lastEvent() != otr3.SMPEventAskForAnswer || len(o.asked) != nAsked+1 || o.asked[nAsked] != c.question {
					t.Fatalf("otr3 did not ask the question: %v %q", o.events, o.asked)
				}
				if q, ok := o.c.SMPQuestion(); !ok || q != c.question {
					t.Fatalf("SMPQuestion = %q,%v", q, ok)
				}
			} else if o.lastEvent() != otr3.SMPEventAskForSecret {
				t.Fatalf("otr3 did not ask for the secret: %v", o.events)
			}
			msgs, err := o.c.ProvideAuthenticationSecret([]byte(c.so))
			if err != nil {
				t.Fatal(err)
			}
			toPeer := o.record(msgs)
			result := -1
			for step := 0; len(toPeer) > 0; step++ {
				if step > 4 {
					t.Fatal("SMP does not terminate")
				}
				var toOtr [][]byte
				for _, m := range toPeer {
					n := len(p.Inbox)
					if _, err := p.Receive(m); err != nil {
						t.Fatalf("Peer.Receive: %v", err)
					}
					for _, d := range p.Inbox[n:] {
						for _, tl := range d.TLVs {
							if tl.Type < TLVSMP1 || tl.Type > TLVSMP1Q {
								continue
							}
							out, r, err := p.SMPStep(tl, nil)
							if err != nil {
								t.Fatalf("SMPStep(type %d): %v", tl.Type, err)
							}
							if r == SMPAborted && result == SMPFailed {
								// Spec: after message 4 the initiator sends nothing.
								t.Logf("DEVIATION: otr3 as SMP initiator sent an abort TLV (value length %d) after message 4 reported a failed comparison", len(tl.Value))
							} else if r != SMPInProgress {
								result = r
							}
							if out != nil {
								toOtr = append(toOtr, out)
							}
						}
					}
				}
				toPeer = nil
				for _, m := range toOtr {
					_, out := o.recv(m)
					toPeer = append(toPeer, out...)
				}
			}
			if c.want == SMPFailed && result == SMPAborted {
				// Spec: the responder sends message 4 regardless of the
				// comparison result. otr3 instead answers a failed
				// comparison with an abort TLV (see report). refotr stays
				// spec-conformant; both outcomes mean "not verified".
				t.Logf("DEVIATION: otr3 as SMP responder sent an abort TLV instead of SMP message 4 after a failed comparison")
			} else if result != c.want {
				t.Fatalf("%+v: Peer result %d, want %d", c, result, c.want)
			}
			if o.lastEvent() != c.event {
				t.Fatalf("%+v: otr3 event %v, want %v (all: %v)", c, o.lastEvent(), c.event, o.events)
			}
			peerToOtr(t, p, o, "after smp")
		}
	})
}

// Test 3c: extra symmetric key agreement in both directions.
func TestInteropExtraKey(t *testing.T) {
	forEachInterop(t, func(t *testing.T, version uint16, p *Peer, o *otrSide) {
		for round := 0; round < 4; round++ {
			// otr3 -> Peer
			key, msgs, err := o.c.UseExtraSymmetricKey(0x01020304, []byte("usage data"))
			if err != nil {
				t.Fatal(err)
			}
			out := o.record(msgs)
			if len(out) != 1 || len(key) != 32 {
				t.Fatalf("UseExtraSymmetricKey: %d messages, key length %d", len(out), len(key))
			}
			if _, err := p.Receive(out[0]); err != nil {
				t.Fatal(err)
			}
			d := p.Inbox[len(p.Inbox)-1]
			if !bytes.Equal(d.ExtraKey, key) {
				t.Fatalf("extra key differs:\n peer %x\n otr3 %x", d.ExtraKey, key)
			}
			var tl *TLV
			for i := range d.TLVs {
				if d.TLVs[i].Type == TLVExtraKey {
					tl = &d.TLVs[i]
				}
			}
			if tl == nil || !bytes.Equal(tl.Value, append([]byte{1, 2, 3, 4}, "usage data"...)) {
				t.Fatalf("extra key TLV missing or wrong: %+v", d.TLVs)
			}
			if d.Flags&FlagIgnoreUnreadable == 0 {
				t.Log("otr3 does not set ignore-unreadable on the extra key message")
			}
			// Peer -> otr3
			want := p.ExtraKey()
			m, err := p.Send(nil, []TLV{{Type: TLVExtraKey, Value: append([]byte{0, 0, 0, 9}, "peer data"...)}}, FlagIgnoreUnreadable)
			if err != nil {
				t.Fatal(err)
			}
			n := len(o.symKeys)
			_, hb := o.recv(m)
			deliverHeartbeats(t, p, hb)
			if len(o.symKeys) != n+1 || !bytes.Equal(o.symKeys[n], want) || o.symUse[n] != 9 {
				t.Fatalf("otr3 received key handler: %d keys", len(o.symKeys)-n)
			}
			// Rotate keys between rounds.
			peerToOtr(t, p, o, "rotate")
			otrToPeer(t, p, o, "rotate")
		}
	})
}

// Test 3d: fragments produced by otr3 parse strictly and reassemble.
func TestInteropFragments(t *testing.T) {
	forEachInterop(t, func(t *testing.T, version uint16, p *Peer, o *otrSide) {
		for _, size := range []uint16{60, 100, 251} {
			o.c.SetFragmentSize(size)
			text := string(bytes.Repeat([]byte("fragment me "), 40))
			msgs := o.send(text)
			if len(msgs) < 2 {
				t.Fatalf("size %d: otr3 produced %d fragments", size, len(msgs))
			}
			var r Reassembler
			var whole []byte
			for i, f := range msgs {
				if len(f) > int(size) {
					t.Errorf("size %d: fragment %d has %d bytes", size, i, len(f))
				}
				fi, err := ParseFragment(f)
				if err != nil {
					t.Fatalf("size %d: fragment %d fails strict parse: %v\n%s", size, i, err, f)
				}
				if fi.V3 != (version == 3) || fi.K != i+1 || fi.N != len(msgs) {
					t.Fatalf("fragment info %+v", fi)
				}
				if version == 3 && (fi.SenderTag != p.TheirTag || fi.ReceiverTag != p.OurTag) {
					t.Fatalf("fragment tags %+v", fi)
				}
				if whole != nil {
					t.Fatal("complete before the last fragment")
				}
				whole = r.Add(fi.K, fi.N, fi.Piece)
			}
			if whole == nil {
				t.Fatal("not reassembled")
			}
			// The reassembled message is a strict, canonical data message.
			parsed, err := ParseArmored(whole)
			if err != nil || !bytes.Equal(Armor(RawOf(parsed)), whole) {
				t.Fatalf("reassembled message: %v", err)
			}
			// Feed the same fragments to the Peer's own reassembly path.
			n := len(p.Inbox)
			for _, f := range msgs {
				if _, err := p.Receive(f); err != nil {
					t.Fatal(err)
				}
			}
			if len(p.Inbox) != n+1 || string(p.Inbox[n].Text) != text {
				t.Fatal("Peer did not deliver the fragmented message")
			}
			// And the other way: otr3 reassembles refotr fragments.
			o.c.SetFragmentSize(0)
			m, _ := p.Send([]byte(text), nil, 0)
			frags := Fragment(version, p.OurTag, p.TheirTag, m, 73)
			for i, f := range frags {
				plain, out := o.recv(f)
				if len(out) != 0 {
					t.Fatal("otr3 replied to a fragment")
				}
				if i < len(frags)-1 && plain != nil {
					t.Fatal("otr3 delivered early")
				}
				if i == len(frags)-1 && string(plain) != text {
					t.Fatalf("otr3 delivered %q", plain)
				}
			}
		}
	})
}

// Probe (informational): when the message length is an exact multiple of the
// payload size, does otr3 emit an empty final fragment?
func TestInteropFragmentExactMultiple(t *testing.T) {
	ka, kb := testKeys(t)
	p := NewPeer(2, &ka.PrivateKey, newRand("exact peer"), 0)
	o := newOtrSide(t, 2, kb, "exact otr3")
	c, _ := p.StartAKE()
	shuttle(t, p, o, nil, [][]byte{c})
	o.c.SetFragmentSize(0)
	whole := o.send("0123456789")[0]
	// v2 header "?OTR,00001,00002," is 17 bytes, plus trailing comma.
	for _, div := range []int{2, 4} {
		if len(whole)%div != 0 {
			continue
		}
		size := uint16(len(whole)/div + 18)
		o.c.SetFragmentSize(size)
		msgs := o.send("0123456789")
		for i, f := range msgs {
			if _, err := ParseFragment(f); err != nil {
				t.Logf("DEVIATION: payload %d bytes, fragment size %d: otr3 fragment %d/%d is %q: %v", len(whole), size, i+1, len(msgs), f, err)
			}
		}
		t.Logf("payload %d bytes in pieces of %d: otr3 produced %d fragments", len(whole), len(whole)/div, len(msgs))
	}
}

// Whitespace tags, queries and error messages produced by otr3 are
// recognised by the refotr parsers.
func TestInteropTagsQueriesErrors(t *testing.T) {
	ka, kb := testKeys(t)
	for _, version := range []uint16{2, 3} {
		o := newOtrSide(t, version, kb, fmt.Sprintf("misc otr3 v%d", version))
		o.c.Policies.SendWhitespaceTag()
		out := o.send("hello there")
		if len(out) != 1 {
			t.Fatalf("otr3 produced %d messages", len(out))
		}
		stripped, vs, found := FindWhitespaceTag(out[0])
		if !found || string(stripped) != "hello there" || len(vs) != 1 || vs[0] != int(version) {
			t.Fatalf("v%d whitespace tag: %q %v %v", version, stripped, vs, found)
		}
		if !bytes.Contains(out[0], WhitespaceTag(version == 2, version == 3)) {
			t.Fatalf("v%d: otr3 tag differs from WhitespaceTag()", version)
		}
		// The Peer starts an AKE on the tag and the session comes up.
		p := NewPeer(version, &ka.PrivateKey, newRand("misc peer"), 0x4711)
		shuttle(t, p, o, out, nil)
		checkInteropSession(t, p, o, kb)
		if len(p.Inbox) != 1 || string(p.Inbox[0].Text) != "hello there" || p.Inbox[0].Encrypted {
			t.Fatalf("tagged plaintext not delivered: %+v", p.Inbox)
		}

		// otr3's query names exactly the allowed version.
		q := o.c.QueryMessage()
		if got, ok := ParseQuery(q); !ok || len(got) != 1 || got[0] != int(version) {
			t.Fatalf("v%d query %q parsed as %v %v", version, q, got, ok)
		}

		// A data message with a wrong MAC is refused by otr3 and answered
		// with an OTR error message (an error handler is installed).
		forged, err := p.BuildData(DataSpec{Text: []byte("forged"), MACKey: make([]byte, 20), OldMAC: []byte{}})
		if err != nil {
			t.Fatal(err)
		}
		plain, toSend, rerr := o.c.Receive(otr3.ValidMessage(Armor(forged.Raw())))
		if rerr == nil || plain != nil {
			t.Fatalf("v%d: otr3 accepted a data message with a wrong MAC", version)
		}
		sawError := false
		for _, e := range o.record(toSend) {
			if IsError(e) {
				sawError = true
				if _, err := p.Receive(e); err != nil || len(p.PeerErrors) == 0 {
					t.Fatal("error message not recorded by the Peer")
				}
			}
		}
		if !sawError {
			t.Errorf("v%d: otr3 sent no error message for a forged data message (%d replies)", version, len(toSend))
		}
		peerToOtr(t, p, o, "still works")

		// otr3 ends the session: the Peer sees the disconnected TLV.
		bye, err := o.c.End()
		if err != nil || len(bye) != 1 {
			t.Fatalf("End: %v, %d messages", err, len(bye))
		}
		if _, err := p.Receive(o.record(bye)[0]); err != nil || !p.Finished || p.Encrypted {
			t.Fatalf("v%d: disconnect not processed: %v", version, err)
		}
		o.checkEmitted(version)
	}
}
