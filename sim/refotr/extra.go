package refotr

import "math/big"

// AKEM exposes M = HMAC-SHA256_m1(MPI gOurs || MPI gTheirs || PUBKEY || INT keyid)
// so that the harness can build deviant X blocks (e.g. one that advertises
// somebody else's public key).
func AKEM(m1 []byte, gOurs, gTheirs *big.Int, pubKeyBytes []byte, keyID uint32) []byte {
	return akeM(m1, gOurs, gTheirs, pubKeyBytes, keyID)
}
