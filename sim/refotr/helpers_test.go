package refotr_test

import (
	"crypto/dsa"
	"crypto/sha256"
	"encoding/binary"
	"sync"
	"testing"

	"github.com/coyim/otr3"
)

// detRand is a deterministic byte stream: SHA-256 in counter mode over a
// seed. 1-byte reads are answered with a constant and do not advance the
// stream, because crypto/dsa.Sign (called by otr3 with the raw reader)
// performs a 1-byte probe read with probability 1/2.
type detRand struct {
	seed [32]byte
	ctr  uint64
	buf  []byte
}

func newRand(seed string) *detRand {
	return &detRand{seed: sha256.Sum256([]byte(seed))}
}

func (d *detRand) Read(p []byte) (int, error) {
	if len(p) == 1 {
		p[0] = 0x5a
		return 1, nil
	}
	for len(d.buf) < len(p) {
		var c [8]byte
		binary.BigEndian.PutUint64(c[:], d.ctr)
		d.ctr++
		h := sha256.Sum256(append(d.seed[:], c[:]...))
		d.buf = append(d.buf, h[:]...)
	}
	copy(p, d.buf[:len(p)])
	d.buf = d.buf[len(p):]
	return len(p), nil
}

// Uint returns a deterministic pseudo-random number in [0, n).
func (d *detRand) Uint(n int) int {
	var b [8]byte
	d.Read(b[:])
	return int(binary.BigEndian.Uint64(b[:]) % uint64(n))
}

var (
	keyOnce sync.Once
	keyA    *otr3.DSAPrivateKey
	keyB    *otr3.DSAPrivateKey
)

// testKeys generates two DSA keys once per test binary.
func testKeys(t testing.TB) (*otr3.DSAPrivateKey, *otr3.DSAPrivateKey) {
	keyOnce.Do(func() {
		keyA, keyB = &otr3.DSAPrivateKey{}, &otr3.DSAPrivateKey{}
		if err := keyA.Generate(newRand("key A")); err != nil {
			t.Fatalf("generate key A: %v", err)
		}
		if err := keyB.Generate(newRand("key B")); err != nil {
			t.Fatalf("generate key B: %v", err)
		}
	})
	if keyA == nil || keyB == nil || keyA.PrivateKey.X == nil || keyB.PrivateKey.X == nil {
		t.Fatal("test keys unavailable")
	}
	return keyA, keyB
}

func dsaKeys(t testing.TB) (*dsa.PrivateKey, *dsa.PrivateKey) {
	a, b := testKeys(t)
	return &a.PrivateKey, &b.PrivateKey
}
