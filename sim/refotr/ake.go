package refotr

import (
	"bytes"
	"crypto/dsa"
	"crypto/hmac"
	"crypto/sha256"
	"errors"
	"io"
	"math/big"
)

// Pure AKE helpers. Naming follows the spec: Bob is the initiator (sends
// DH-Commit and Reveal-Signature, owns x), Alice the responder (sends DH-Key
// and Signature, owns y).

// MakeDHCommit builds a DH-Commit:
//
//	DATA AES128-CTR_r(MPI g^x) with counter 0, DATA SHA-256(MPI g^x).
//
// h.Type is forced to TypeDHCommit.
func MakeDHCommit(h Header, gx *big.Int, r []byte) *DHCommit {
	h.Type = TypeDHCommit
	gxmpi := MPIBytes(gx)
	sum := sha256.Sum256(gxmpi)
	return &DHCommit{Header: h, EncGx: AESCTRZero(r, gxmpi), HashGx: sum[:]}
}

// OpenDHCommit performs the checks the responder makes on receiving
// Reveal-Signature: decrypt the committed value with r, check that
// SHA-256 of the decrypted bytes equals the committed hash, strictly parse
// the bytes as exactly one MPI and check 2 <= g^x <= p-2.
func OpenDHCommit(c *DHCommit, r []byte) (gx *big.Int, err error) {
	if len(r) != 16 {
		return nil, errors.New("refotr: ake: r is not 16 bytes")
	}
	gxmpi := AESCTRZero(r, c.EncGx)
	sum := sha256.Sum256(gxmpi)
	if !hmac.Equal(sum[:], c.HashGx) {
		return nil, errors.New("refotr: ake: revealed g^x does not match committed hash")
	}
	rd := &Reader{B: gxmpi}
	gx = rd.MPI()
	if !rd.Done() {
		return nil, errors.New("refotr: ake: revealed g^x is not a well-formed MPI")
	}
	if !InRange(gx) {
		return nil, errors.New("refotr: ake: g^x out of range")
	}
	return gx, nil
}

// akeM computes M = HMAC-SHA256_m1(MPI gFirst || MPI gSecond || PUBKEY pub ||
// INT keyid). The signer's DH value goes first.
func akeM(m1 []byte, gSigner, gVerifier *big.Int, pubBytes []byte, keyID uint32) []byte {
	b := PutMPI(nil, gSigner)
	b = PutMPI(b, gVerifier)
	b = append(b, pubBytes...)
	b = PutInt(b, keyID)
	return HMAC256(m1, b)
}

// MakeXBlock builds X = PUBKEY pub || INT keyid || SIG sig(M) in clear, where
// M = HMAC-SHA256_m1(MPI gOurs || MPI gTheirs || PUBKEY pub || INT keyid).
// Bob uses m1, Alice m1'.
func MakeXBlock(priv *dsa.PrivateKey, rnd io.Reader, m1 []byte, gOurs, gTheirs *big.Int, keyID uint32) ([]byte, error) {
	pb := PubKeyBytes(&priv.PublicKey)
	m := akeM(m1, gOurs, gTheirs, pb, keyID)
	sig, err := Sign(priv, rnd, m)
	if err != nil {
		return nil, err
	}
	x := append([]byte{}, pb...)
	x = PutInt(x, keyID)
	return append(x, sig...), nil
}

// XBlockMAC is the first 160 bits of HMAC-SHA256_m2 over the DATA encoding
// (4-byte length included) of the encrypted signature.
func XBlockMAC(m2, encSig []byte) []byte {
	return HMAC256(m2, PutData(nil, encSig))[:20]
}

// SealXBlock encrypts X with c (counter 0) and MACs it with m2.
// Bob uses (c, m2), Alice (c', m2').
func SealXBlock(c, m2 []byte, x []byte) (encSig, mac []byte) {
	encSig = AESCTRZero(c, x)
	return encSig, XBlockMAC(m2, encSig)
}

// OpenXBlock verifies and opens the peer's encrypted signature block:
//  1. the MAC must equal XBlockMAC(m2, encSig);
//  2. the decryption must parse strictly as PUBKEY || INT keyid || SIG with
//     nothing left over;
//  3. keyid must be non-zero;
//  4. the signature over M (peer's DH value first) must verify.
func OpenXBlock(c, m1, m2 []byte, encSig, mac []byte, gTheirs, gOurs *big.Int) (pub *dsa.PublicKey, keyID uint32, err error) {
	if len(mac) != 20 || !hmac.Equal(mac, XBlockMAC(m2, encSig)) {
		return nil, 0, errors.New("refotr: ake: bad MAC on encrypted signature")
	}
	x := AESCTRZero(c, encSig)
	rd := &Reader{B: x}
	pub = ParsePubKey(rd)
	keyID = rd.Int()
	sig := rd.Fixed(40)
	if !rd.Done() {
		if rd.Err != nil {
			return nil, 0, errors.New("refotr: ake: malformed X block: " + rd.Err.Error())
		}
		return nil, 0, errors.New("refotr: ake: malformed X block: trailing bytes")
	}
	if keyID == 0 {
		return nil, 0, errors.New("refotr: ake: keyid 0 in X block")
	}
	m := akeM(m1, gTheirs, gOurs, PubKeyBytes(pub), keyID)
	if !Verify(pub, m, sig) {
		return nil, 0, errors.New("refotr: ake: bad signature in X block")
	}
	return pub, keyID, nil
}

// CommitHigher implements the DH-Commit collision rule: it reports whether
// our committed hash, read as a 32-byte big-endian unsigned value, is higher
// than theirs.
func CommitHigher(ours, theirs []byte) bool {
	if len(ours) == len(theirs) {
		return bytes.Compare(ours, theirs) > 0
	}
	return new(big.Int).SetBytes(ours).Cmp(new(big.Int).SetBytes(theirs)) > 0
}
