package refotr_test

import (
	"bytes"
	"errors"
	"fmt"
	"math/big"
	"testing"

	. "verifsim/refotr"
)

// deliverAll feeds msgs to dst and returns dst's replies.
func deliverAll(t *testing.T, dst *Peer, msgs [][]byte) [][]byte {
	t.Helper()
	var out [][]byte
	for _, m := range msgs {
		o, err := dst.Receive(m)
		if err != nil {
			t.Fatalf("Receive: %v", err)
		}
		out = append(out, o...)
	}
	return out
}

// pingPong delivers msgs (sent by the peer that is NOT first) to first, the
// replies to second, and so on until nobody has anything to say.
func pingPong(t *testing.T, first, second *Peer, msgs [][]byte) {
	t.Helper()
	for i := 0; len(msgs) > 0; i++ {
		if i > 20 {
			t.Fatal("conversation does not settle")
		}
		msgs = deliverAll(t, first, msgs)
		first, second = second, first
	}
}

func newPair(t *testing.T, version uint16, seed string) (*Peer, *Peer) {
	ka, kb := dsaKeys(t)
	a := NewPeer(version, ka, newRand(seed+" A"), 0x00000101)
	b := NewPeer(version, kb, newRand(seed+" B"), 0x7fffffff)
	return a, b
}

func establish(t *testing.T, a, b *Peer) {
	t.Helper()
	c, err := a.StartAKE()
	if err != nil {
		t.Fatal(err)
	}
	pingPong(t, b, a, [][]byte{c})
	checkSession(t, a, b)
}

func checkSession(t *testing.T, a, b *Peer) {
	t.Helper()
	if !a.Encrypted || !b.Encrypted {
		t.Fatalf("not encrypted: a=%v b=%v", a.Encrypted, b.Encrypted)
	}
	if a.SSID != b.SSID {
		t.Fatal("SSID mismatch")
	}
	if a.AuthState != AuthNone || b.AuthState != AuthNone {
		t.Fatal("auth state not NONE after AKE")
	}
	if a.Initiator == b.Initiator {
		t.Fatal("exactly one side must be the initiator")
	}
	if !bytes.Equal(Fingerprint(a.TheirPub), Fingerprint(&b.Priv.PublicKey)) ||
		!bytes.Equal(Fingerprint(b.TheirPub), Fingerprint(&a.Priv.PublicKey)) {
		t.Fatal("peer public keys not learnt")
	}
	if a.OurKeyID != 2 || b.OurKeyID != 2 || a.TheirKeyID != 1 || b.TheirKeyID != 1 {
		t.Fatalf("key ids after AKE: %d %d %d %d", a.OurKeyID, b.OurKeyID, a.TheirKeyID, b.TheirKeyID)
	}
	if a.Version == 3 && (a.TheirTag != b.OurTag || b.TheirTag != a.OurTag) {
		t.Fatal("instance tags not learnt")
	}
}

func TestPeerAKE(t *testing.T) {
	for _, v := range []uint16{2, 3} {
		a, b := newPair(t, v, fmt.Sprintf("ake v%d", v))
		establish(t, a, b)
		if !a.Initiator {
			t.Fatal("a sent Reveal-Signature, must be initiator")
		}
		// Via query.
		a, b = newPair(t, v, fmt.Sprintf("query v%d", v))
		pingPong(t, b, a, [][]byte{a.Query()})
		checkSession(t, a, b)
		if !b.Initiator {
			t.Fatal("b answered the query, must be initiator")
		}
		// A peer speaking another version ignores the query.
		other := NewPeer(5-v, a.Priv, newRand("x"), 0x222)
		_, err := other.Receive(a.Query())
		var ce *CheckError
		if !errors.As(err, &ce) || !ce.Ignored {
			t.Fatalf("query for other version: %v", err)
		}
	}
}

// Simultaneous DH-Commits: the collision rule picks one AKE.
func TestPeerAKECollision(t *testing.T) {
	for _, v := range []uint16{2, 3} {
		a, b := newPair(t, v, fmt.Sprintf("collision v%d", v))
		ca, _ := a.StartAKE()
		cb, _ := b.StartAKE()
		outA, err := a.Receive(cb)
		if err != nil {
			t.Fatal(err)
		}
		outB, err := b.Receive(ca)
		if err != nil {
			t.Fatal(err)
		}
		// Exactly one side stays AWAITING_DHKEY (and resends its commit).
		if (a.AuthState == AuthAwaitingDHKey) == (b.AuthState == AuthAwaitingDHKey) {
			t.Fatalf("collision not resolved: %d %d", a.AuthState, b.AuthState)
		}
		// Deliver everything; retransmissions must be harmless.
		for i := 0; len(outA)+len(outB) > 0; i++ {
			if i > 20 {
				t.Fatal("does not settle")
			}
			var nA, nB [][]byte
			for _, m := range outA {
				o, err := b.Receive(m)
				var ce *CheckError
				if err != nil && !(errors.As(err, &ce) && ce.Ignored) {
					t.Fatal(err)
				}
				nB = append(nB, o...)
			}
			for _, m := range outB {
				o, err := a.Receive(m)
				var ce *CheckError
				if err != nil && !(errors.As(err, &ce) && ce.Ignored) {
					t.Fatal(err)
				}
				nA = append(nA, o...)
			}
			outA, outB = nA, nB
		}
		checkSession(t, a, b)
		exchange(t, a, b, newRand("collision msgs"), 6)
	}
}

// exchange sends n messages with random sender and random delivery delay
// (in order per direction) and checks exact delivery.
func exchange(t *testing.T, a, b *Peer, rnd *detRand, n int) {
	t.Helper()
	type flight struct {
		msg  []byte
		text string
	}
	var toA, toB []flight
	var wantA, wantB []string
	baseA, baseB := len(a.Inbox), len(b.Inbox)
	flush := func(q *[]flight, dst *Peer, k int) {
		for ; k > 0 && len(*q) > 0; k-- {
			f := (*q)[0]
			*q = (*q)[1:]
			if out, err := dst.Receive(f.msg); err != nil || len(out) != 0 {
				t.Fatalf("deliver %q: %v (out %d)", f.text, err, len(out))
			}
		}
	}
	for i := 0; i < n; i++ {
		text := fmt.Sprintf("message %d / %x", i, rnd.Uint(1<<30))
		if rnd.Uint(2) == 0 {
			m, err := a.Send([]byte(text), nil, 0)
			if err != nil {
				t.Fatal(err)
			}
			toB = append(toB, flight{m, text})
			wantB = append(wantB, text)
		} else {
			m, err := b.Send([]byte(text), nil, 0)
			if err != nil {
				t.Fatal(err)
			}
			toA = append(toA, flight{m, text})
			wantA = append(wantA, text)
		}
		flush(&toA, a, rnd.Uint(3))
		flush(&toB, b, rnd.Uint(3))
	}
	flush(&toA, a, len(toA))
	flush(&toB, b, len(toB))
	check := func(p *Peer, base int, want []string) {
		got := p.Inbox[base:]
		if len(got) != len(want) {
			t.Fatalf("delivered %d, want %d", len(got), len(want))
		}
		for i := range want {
			if string(got[i].Text) != want[i] || !got[i].Encrypted || len(got[i].TLVs) != 0 {
				t.Fatalf("delivery %d: %q want %q", i, got[i].Text, want[i])
			}
		}
	}
	check(a, baseA, wantA)
	check(b, baseB, wantB)
}

// Test 2: 30 messages with random interleaving, both versions.
func TestPeerDataInterleaved(t *testing.T) {
	for _, v := range []uint16{2, 3} {
		a, b := newPair(t, v, fmt.Sprintf("data v%d", v))
		establish(t, a, b)
		exchange(t, a, b, newRand(fmt.Sprintf("interleave v%d", v)), 30)
		if a.OurKeyID < 4 || b.OurKeyID < 4 || a.TheirKeyID < 3 || b.TheirKeyID < 3 {
			t.Fatalf("keys did not rotate: %d %d %d %d", a.OurKeyID, b.OurKeyID, a.TheirKeyID, b.TheirKeyID)
		}
		// A second AKE on top of the session works and resets key ids.
		establish(t, b, a)
		exchange(t, a, b, newRand("after re-AKE"), 10)
	}
}

// MAC keys revealed are exactly receiving keys that verified messages and
// whose key generation has been retired.
func TestPeerMACDisclosure(t *testing.T) {
	a, b := newPair(t, 3, "disclosure")
	establish(t, a, b)
	send := func(from, to *Peer, s string) *Data {
		m, err := from.Send([]byte(s), nil, 0)
		if err != nil {
			t.Fatal(err)
		}
		p, err := ParseArmored(m)
		if err != nil {
			t.Fatal(err)
		}
		if _, err := to.Receive(m); err != nil {
			t.Fatal(err)
		}
		return p.(*Data)
	}
	// a -> b with pair (a1,b1). b verified with RecvMAC(b1,a1).
	d1 := send(a, b, "one")
	if len(d1.OldMACKeys) != 0 || len(b.UsedRecvMAC) != 1 {
		t.Fatal("unexpected disclosure state")
	}
	used := append([]byte{}, b.UsedRecvMAC[0].Key...)
	// b -> a: sender key b1, recipient a1... a's their_keyid advances.
	send(b, a, "two")
	// a -> b again: now uses (a?, b2): recipient keyid == b.OurKeyID -> b rotates, retiring b1.
	send(a, b, "three")
	if len(b.PendingOldMAC) == 0 || !bytes.Contains(b.PendingOldMAC, used) {
		t.Fatal("retired receiving MAC key not scheduled for disclosure")
	}
	d4 := send(b, a, "four")
	if !bytes.Contains(d4.OldMACKeys, used) || len(b.PendingOldMAC) != 0 {
		t.Fatal("MAC key not revealed in next data message")
	}
	if len(d4.OldMACKeys)%20 != 0 {
		t.Fatal("old MAC keys not a multiple of 20")
	}
}

func TestPeerExtraKey(t *testing.T) {
	for _, v := range []uint16{2, 3} {
		a, b := newPair(t, v, fmt.Sprintf("extra v%d", v))
		establish(t, a, b)
		exchange(t, a, b, newRand("warmup"), 5)
		for i := 0; i < 4; i++ {
			from, to := a, b
			if i%2 == 1 {
				from, to = b, a
			}
			k := from.ExtraKey()
			if len(k) != 32 {
				t.Fatal("extra key length")
			}
			m, err := from.Send(nil, []TLV{{Type: TLVExtraKey, Value: []byte{0, 0, 0, 7, 'd'}}}, FlagIgnoreUnreadable)
			if err != nil {
				t.Fatal(err)
			}
			if _, err := to.Receive(m); err != nil {
				t.Fatal(err)
			}
			d := to.Inbox[len(to.Inbox)-1]
			if !bytes.Equal(d.ExtraKey, k) || len(d.TLVs) != 1 || d.TLVs[0].Type != TLVExtraKey || d.Flags != FlagIgnoreUnreadable {
				t.Fatalf("extra key mismatch (v%d, i=%d)", v, i)
			}
		}
	}
}

// runSMP drives a full SMP run through the Peers and returns the results
// seen by the initiator and the responder.
func runSMP(t *testing.T, a, b *Peer, secretA, secretB string, question []byte, hasQ bool) (resA, resB int) {
	t.Helper()
	msg, err := a.SMPStart([]byte(secretA), question, hasQ)
	if err != nil {
		t.Fatal(err)
	}
	from, to := a, b
	secret := map[*Peer]string{a: secretA, b: secretB}
	res := map[*Peer]int{}
	for i := 0; msg != nil; i++ {
		if i > 6 {
			t.Fatal("SMP does not terminate")
		}
		if _, err := to.Receive(msg); err != nil {
			t.Fatal(err)
		}
		d := to.Inbox[len(to.Inbox)-1]
		if len(d.TLVs) != 1 || len(d.Text) != 0 {
			t.Fatalf("SMP message shape: %+v", d)
		}
		if i == 0 {
			m1, err := ParseSMP1(d.TLVs[0])
			if err != nil || m1.HasQuestion != hasQ || !bytes.Equal(m1.Question, question) {
				t.Fatalf("question not transported: %v", err)
			}
		}
		var r int
		msg, r, err = to.SMPStep(d.TLVs[0], []byte(secret[to]))
		if err != nil {
			t.Fatal(err)
		}
		res[to] = r
		from, to = to, from
	}
	if a.SMP.State != SMPExpect1 || b.SMP.State != SMPExpect1 {
		t.Fatal("SMP state not EXPECT1 at the end")
	}
	return res[a], res[b]
}

func TestPeerSMP(t *testing.T) {
	for _, v := range []uint16{2, 3} {
		a, b := newPair(t, v, fmt.Sprintf("smp v%d", v))
		establish(t, a, b)
		if ra, rb := runSMP(t, a, b, "same secret", "same secret", nil, false); ra != SMPSucceeded || rb != SMPSucceeded {
			t.Fatalf("v%d equal secrets: %d %d", v, ra, rb)
		}
		if ra, rb := runSMP(t, a, b, "secret one", "secret two", []byte("what?"), true); ra != SMPFailed || rb != SMPFailed {
			t.Fatalf("v%d different secrets: %d %d", v, ra, rb)
		}
		// Other direction, with question.
		if ra, rb := runSMP(t, b, a, "s", "s", []byte("q"), true); ra != SMPSucceeded || rb != SMPSucceeded {
			t.Fatalf("v%d reverse: %d %d", v, ra, rb)
		}
		exchange(t, a, b, newRand("after smp"), 4)
	}
}

// A tampered SMP message makes the receiver abort.
func TestSMPCheatDetected(t *testing.T) {
	rnd := newRand("smp cheat")
	var ssid [8]byte
	secret := SMPSecret([]byte("fpa"), []byte("fpb"), ssid, []byte("pw"))
	var alice, bob SMPState
	m1, err := alice.Init(rnd, secret, nil, false)
	if err != nil {
		t.Fatal(err)
	}
	bad := *m1
	bad.D2 = SMPHash(9, m1.D2, nil)
	bad.D2.Mod(bad.D2, Q)
	if err := bob.Recv1(&bad); err == nil {
		t.Fatal("tampered D2 accepted")
	}
	bad = *m1
	bad.G2a = P // out of range
	if err := bob.Recv1(&bad); err == nil {
		t.Fatal("out-of-range g2a accepted")
	}
	if err := bob.Recv1(m1); err != nil {
		t.Fatal(err)
	}
	m2, err := bob.Answer(rnd, secret)
	if err != nil {
		t.Fatal(err)
	}
	// Unexpected message: alice is in EXPECT2, feeding message 4 aborts.
	st := alice
	if _, err := st.Recv4(&SMP4{Rb: m2.Pb, CR: m2.CP, D7: m2.D5}); !errors.Is(err, ErrSMPState) || st.State != SMPExpect1 {
		t.Fatal("unexpected message must abort to EXPECT1")
	}
	bad2 := *m2
	bad2.Qb = MulP(m2.Qb, G)
	st = alice
	if _, err := st.Recv2(rnd, &bad2); err == nil {
		t.Fatal("tampered Qb accepted")
	}
	m3, err := alice.Recv2(rnd, m2)
	if err != nil {
		t.Fatal(err)
	}
	bad3 := *m3
	bad3.Ra = MulP(m3.Ra, G)
	sb := bob
	if _, _, err := sb.Recv3(rnd, &bad3); err == nil {
		t.Fatal("tampered Ra accepted")
	}
	m4, ok, err := bob.Recv3(rnd, m3)
	if err != nil || !ok {
		t.Fatalf("Recv3: %v %v", ok, err)
	}
	bad4 := *m4
	bad4.D7 = Q // out of range
	sa := alice
	if _, err := sa.Recv4(&bad4); err == nil {
		t.Fatal("out-of-range D7 accepted")
	}
	ok, err = alice.Recv4(m4)
	if err != nil || !ok {
		t.Fatalf("Recv4: %v %v", ok, err)
	}
}

// Receive rejects deviant messages with the right check and leaves state
// untouched.
func TestPeerRejections(t *testing.T) {
	a, b := newPair(t, 3, "reject")
	establish(t, a, b)
	exchange(t, a, b, newRand("reject warmup"), 4)

	expect := func(name, check string, m *Data) {
		t.Helper()
		before := fmt.Sprintf("%d %d %d %v %d", b.OurKeyID, b.TheirKeyID, len(b.Inbox), b.RecvCtr, len(b.UsedRecvMAC))
		_, err := b.Receive(Armor(m.Raw()))
		var ce *CheckError
		if !errors.As(err, &ce) || ce.Check != check || ce.Ignored {
			t.Fatalf("%s: got %v, want check %q", name, err, check)
		}
		after := fmt.Sprintf("%d %d %d %v %d", b.OurKeyID, b.TheirKeyID, len(b.Inbox), b.RecvCtr, len(b.UsedRecvMAC))
		if before != after {
			t.Fatalf("%s: state changed on rejection", name)
		}
	}
	build := func(s DataSpec) *Data {
		t.Helper()
		s.Text = []byte("x")
		if s.OldMAC == nil {
			s.OldMAC = []byte{}
		}
		m, err := a.BuildData(s)
		if err != nil {
			t.Fatal(err)
		}
		return m
	}
	u32 := func(v uint32) *uint32 { return &v }
	u64 := func(v uint64) *uint64 { return &v }
	next := a.SendCtr[[2]uint32{a.OurKeyID - 1, a.TheirKeyID}] + 1

	m := build(DataSpec{Ctr: u64(next)})
	m.MAC[3] ^= 1
	expect("bad mac", "mac", m)

	m = build(DataSpec{Ctr: u64(next)})
	m.Enc[0] ^= 1
	expect("modified ciphertext", "mac", m)

	m = build(DataSpec{Ctr: u64(next)})
	m.Flags ^= 1
	expect("modified flags", "mac", m)

	expect("zero counter", "ctr-zero", build(DataSpec{Ctr: u64(0)}))
	// Make sure a message has been accepted on the current pairing, then replay its counter.
	if msg, err := a.Send([]byte("fresh"), nil, 0); err != nil {
		t.Fatal(err)
	} else if _, err := b.Receive(msg); err != nil {
		t.Fatal(err)
	} else if _, err := b.Receive(msg); err == nil {
		t.Fatal("replay accepted")
	}
	pair := [2]uint32{a.OurKeyID - 1, a.TheirKeyID}
	if _, used := a.SendCtr[pair]; used {
		expect("old counter", "ctr-replay", build(DataSpec{Ctr: u64(a.SendCtr[pair])}))
	}
	expect("recipient keyid 0", "recipient-keyid", build(DataSpec{RecipientKeyID: u32(0), Ctr: u64(99)}))
	expect("recipient keyid future", "recipient-keyid", build(DataSpec{RecipientKeyID: u32(b.OurKeyID + 1), Ctr: u64(99)}))
	expect("sender keyid 0", "sender-keyid", build(DataSpec{SenderKeyID: u32(0), Ctr: u64(99)}))
	expect("sender keyid future", "sender-keyid", build(DataSpec{SenderKeyID: u32(b.TheirKeyID + 1), Ctr: u64(99)}))
	expect("truncated TLV", "tlv", build(DataSpec{RawPlain: []byte("t\x00\x00\x01\x00\x09ab"), Ctr: u64(99)}))

	m = build(DataSpec{Ctr: u64(99)})
	m.Version = 2
	if _, err := b.Receive(Armor(m.Raw())); err == nil {
		t.Fatal("v2 message accepted by v3 peer")
	}
	m = build(DataSpec{Ctr: u64(99)})
	m.SenderTag++
	expect("foreign sender tag", "sender-tag-mismatch", m)
	m = build(DataSpec{Ctr: u64(99)})
	m.ReceiverTag = 0x4242
	expect("foreign receiver tag on data", "receiver-tag", m)
	m = build(DataSpec{Ctr: u64(99)})
	m.SenderTag = 0xff
	expect("sender tag below 0x100", "sender-tag", m)

	// After all that the session still works, including the skipped counter.
	exchange(t, a, b, newRand("after rejects"), 6)
	if _, err := b.Receive(Armor(build(DataSpec{Ctr: u64(1 << 40)}).Raw())); err != nil {
		t.Fatalf("valid jump in counter rejected: %v", err)
	}
}

// AKE messages with bad contents are rejected and state stays put.
func TestPeerAKERejections(t *testing.T) {
	a, b := newPair(t, 2, "ake reject")
	commit, _ := a.StartAKE()
	out, err := b.Receive(commit)
	if err != nil || len(out) != 1 {
		t.Fatal(err)
	}
	// DH-Key out of range.
	if _, err := a.Receive(Armor((&DHKey{Header: Header{Version: 2, Type: TypeDHKey}, Gy: P}).Raw())); err == nil || a.AuthState != AuthAwaitingDHKey {
		t.Fatal("out-of-range DH-Key accepted")
	}
	out, err = a.Receive(out[0])
	if err != nil || len(out) != 1 {
		t.Fatal(err)
	}
	rs, _ := ParseArmored(out[0])
	mods := []func(m *RevealSig){
		func(m *RevealSig) { m.R[0] ^= 1 },
		func(m *RevealSig) { m.EncSig[10] ^= 1 },
		func(m *RevealSig) { m.MAC[0] ^= 1 },
	}
	for name, mod := range mods {
		cp, _ := ParseArmored(out[0])
		m := cp.(*RevealSig)
		mod(m)
		if _, err := b.Receive(Armor(m.Raw())); err == nil || b.AuthState != AuthAwaitingRevealSig || b.Encrypted {
			t.Fatalf("tampered Reveal-Signature (%d) accepted", name)
		}
	}
	// Signature before Reveal-Signature is ignored by b.
	if _, err := b.Receive(Armor((&Signature{Header: Header{Version: 2, Type: TypeSignature}, EncSig: []byte{1}, MAC: make([]byte, 20)}).Raw())); err == nil {
		t.Fatal("unexpected Signature not flagged")
	}
	out, err = b.Receive(Armor(RawOf(rs)))
	if err != nil || len(out) != 1 || !b.Encrypted {
		t.Fatal(err)
	}
	cp, _ := ParseArmored(out[0])
	sig := cp.(*Signature)
	sig.EncSig[len(sig.EncSig)-1] ^= 1
	if _, err := a.Receive(Armor(sig.Raw())); err == nil || a.Encrypted {
		t.Fatal("tampered Signature accepted")
	}
	if _, err := a.Receive(out[0]); err != nil || !a.Encrypted {
		t.Fatal(err)
	}
	checkSession(t, a, b)
}

// Retransmission rules of the AKE state machine.
func TestPeerAKERetransmit(t *testing.T) {
	a, b := newPair(t, 3, "retransmit")
	commit, _ := a.StartAKE()
	k1, err := b.Receive(commit)
	if err != nil {
		t.Fatal(err)
	}
	// Second DH-Commit in AWAITING_REVEALSIG: same g^y again.
	k2, err := b.Receive(commit)
	if err != nil || !bytes.Equal(k1[0], k2[0]) {
		t.Fatal("DH-Key not retransmitted identically")
	}
	r1, err := a.Receive(k1[0])
	if err != nil {
		t.Fatal(err)
	}
	// Same DH-Key in AWAITING_SIG: retransmit Reveal-Signature.
	r2, err := a.Receive(k2[0])
	if err != nil || !bytes.Equal(r1[0], r2[0]) {
		t.Fatal("Reveal-Signature not retransmitted identically")
	}
	// Different DH-Key in AWAITING_SIG: ignored.
	_, err = a.Receive(Armor((&DHKey{Header: Header{Version: 3, Type: TypeDHKey, SenderTag: b.OurTag, ReceiverTag: a.OurTag}, Gy: Exp(G, big.NewInt(12345))}).Raw()))
	var ce *CheckError
	if !errors.As(err, &ce) || !ce.Ignored {
		t.Fatalf("different DH-Key: %v", err)
	}
	s, err := b.Receive(r1[0])
	if err != nil {
		t.Fatal(err)
	}
	// Retransmitted Reveal-Signature after completion: ignored.
	if _, err := b.Receive(r2[0]); !errors.As(err, &ce) || !ce.Ignored {
		t.Fatalf("late Reveal-Signature: %v", err)
	}
	if _, err := a.Receive(s[0]); err != nil {
		t.Fatal(err)
	}
	checkSession(t, a, b)
}

func TestPeerFragments(t *testing.T) {
	for _, v := range []uint16{2, 3} {
		a, b := newPair(t, v, fmt.Sprintf("frag v%d", v))
		establish(t, a, b)
		m, _ := a.Send(bytes.Repeat([]byte("long "), 100), nil, 0)
		frags := Fragment(v, a.OurTag, a.TheirTag, m, 60)
		for i, f := range frags {
			if _, err := b.Receive(f); err != nil {
				t.Fatal(err)
			}
			if (i == len(frags)-1) != (len(b.Inbox) == 1) {
				t.Fatal("delivery at wrong fragment")
			}
		}
		if v == 3 {
			m, _ = a.Send([]byte("again"), nil, 0)
			for _, f := range Fragment(v, a.OurTag+1, a.TheirTag, m, 60) {
				var ce *CheckError
				if _, err := b.Receive(f); !errors.As(err, &ce) || !ce.Ignored {
					t.Fatal("fragment from other instance not ignored")
				}
			}
			if b.Frag.K != 0 {
				t.Fatal("foreign fragment stored")
			}
		}
	}
}

func TestPeerDisconnect(t *testing.T) {
	a, b := newPair(t, 3, "disconnect")
	establish(t, a, b)
	m, err := a.Disconnect()
	if err != nil || a.Encrypted {
		t.Fatal(err)
	}
	if _, err := b.Receive(m); err != nil || b.Encrypted || !b.Finished {
		t.Fatal("disconnect not processed")
	}
	if _, err := b.Send([]byte("x"), nil, 0); err == nil {
		t.Fatal("send in finished state must fail")
	}
}

// Determinism: the same seeds give byte-identical transcripts.
func TestPeerDeterminism(t *testing.T) {
	run := func() [][]byte {
		a, b := newPair(t, 3, "determinism")
		var tr [][]byte
		c, _ := a.StartAKE()
		msgs := [][]byte{c}
		first, second := b, a
		for len(msgs) > 0 {
			tr = append(tr, msgs...)
			msgs = deliverAll(t, first, msgs)
			first, second = second, first
		}
		for i := 0; i < 5; i++ {
			m, _ := a.Send([]byte("hi"), nil, 0)
			b.Receive(m)
			n, _ := b.Send([]byte("ho"), nil, 0)
			a.Receive(n)
			tr = append(tr, m, n)
		}
		return tr
	}
	t1, t2 := run(), run()
	if len(t1) != len(t2) {
		t.Fatal("transcript length differs")
	}
	for i := range t1 {
		if !bytes.Equal(t1[i], t2[i]) {
			t.Fatalf("transcript differs at message %d", i)
		}
	}
}
