package sim

import (
	"bufio"
	"bytes"
	"errors"
	"fmt"
	"io"
	"math/big"
	"os"
	"runtime"
	"strings"

	"github.com/coyim/otr3"
	"github.com/coyim/otr3/sexp"

	"verifsim/refotr"
)

// C13 – untrusted input and randomness failure never crash, hang or exhaust memory.
// Three simulated surfaces:
//   mode 0  Receive in any state, hostile input (exploration)
//   mode 1  failure of the k-th read from Conversation.Rand (k enumerated completely)
//   mode 2  key-file import through a simulated reader (chunking, truncation at
//           every offset, I/O error at every offset, hostile files)
// plus, as a by-product, the public parsing functions on every hostile input.

const c13AllocBase = 16 << 20 // bytes a single call may allocate on top of 64 x input length

var c13States = []string{"plaintext", "ake-sent-commit", "ake-sent-dhkey", "ake-sent-revealsig", "encrypted", "smp-expect2", "smp-waiting-secret", "finished", "no-keys", "otr-disabled", "key-with-long-q"}

func init() {
	Register(&PropDef{
		ID: "C13", Title: "hostile input and randomness failure: no crash, hang or memory exhaustion",
		Config: c13Config, Run: c13Run, MaxSteps: 60, OwnsCrash: true, Level: "fault_enumeration",
		Fixed: nil,
		Rule: "three kinds of runs: (a) enumeration - for a scripted scenario per version (AKE in both roles, traffic with rotation, SMP both roles, extra key, End) the k-th read from Conversation.Rand fails, for EVERY k up to the number of reads the scenario makes and each failure mode (EOF, short+EOF, error, short without error); (b) enumeration - ImportKeys through a simulated reader: the exported key file truncated at every offset, with an I/O error at every offset (sampled stride in quick), in 1-byte/prime/whole chunks, plus hostile files; (c) exploration - a victim in one of 10 states receives PRNG-generated hostile input of 7 classes (mutated/truncated genuine traffic, authenticated-but-malicious payloads built by the reference peer, huge length prefixes, garbage behind every recognised prefix, fragment garbage, replays) and the public parsers get the same bytes. " +
			"Monitors on every call: recovered panic, per-call wall watchdog (worker killed -> attributed by seed), heap allocation above 16 MiB + 64 x input length; afterwards the conversation must still complete a probe handshake and message exchange. non-trivial = the run injected at least one fault/hostile input that reached the library; distinct = distinct (mode, case) signatures",
		Assume: []string{"'out of proportion' is quantified as more than 16 MiB + 64 x input length allocated by one call (genuine traffic stays below 1 MiB per call)",
			"stack depth proportional to the input (recursive s-expression reader) is not flagged unless the process dies"},
	})
}

type c13Enum struct {
	mode, a, b, c int
}

var c13EnumCache = map[string][]c13Enum{}

// c13Cases lists the enumerated cases of a tier.
func c13Cases(tier string) []c13Enum {
	if cs, ok := c13EnumCache[tier]; ok {
		return cs
	}
	var cs []c13Enum
	// (a) randomness failure: scenario version x k x mode; k up to a generous bound (runs beyond the scenario's reads are cheap no-ops)
	for _, ver := range []int{2, 3, 12, 13} { // 12/13: version 2/3 with a lost DH-Commit collision at the start
		for k := 0; k < 70; k++ {
			for mode := 1; mode <= 4; mode++ {
				cs = append(cs, c13Enum{1, ver, k, mode})
			}
		}
	}
	// (b) key file: truncation / error offsets
	stride := 7
	if tier == "thorough" {
		stride = 1
	}
	n := len(c13KeyFile())
	for off := 0; off <= n; off += stride {
		cs = append(cs, c13Enum{2, 0, off, off % 3}) // truncate
		cs = append(cs, c13Enum{2, 1, off, off % 3}) // I/O error
	}
	for i := 0; i < 24; i++ {
		cs = append(cs, c13Enum{2, 2, i, i % 3}) // hostile files
	}
	c13EnumCache[tier] = cs
	return cs
}

var c13kf []byte

func c13KeyFile() []byte {
	if c13kf == nil {
		var buf bytes.Buffer
		accs := []*otr3.Account{{Name: "alice@example.org", Protocol: "prpl-jabber", Key: TestKey(0)}, {Name: "bob", Protocol: "libpurple-Jabber", Key: TestKey(1)}}
		f, err := osCreateTemp()
		if err == nil {
			_ = otr3.ExportKeysToFile(accs, f)
			b, _ := osReadFile(f)
			buf.Write(b)
			osRemove(f)
		}
		c13kf = buf.Bytes()
	}
	return c13kf
}

func c13Config(rc *RunCtx) {
	r := rc.Rng
	cases := c13Cases(rc.Tier)
	if rc.J < len(cases) {
		c := cases[rc.J]
		rc.Cfg["mode"], rc.Cfg["a"], rc.Cfg["b"], rc.Cfg["c"] = c.mode, c.a, c.b, c.c
		rc.Cfg["enumerated"] = 1
	} else {
		rc.Cfg["mode"] = 0
		if r.Chance(1, 10) {
			rc.Cfg["mode"] = 2
			rc.Cfg["a"], rc.Cfg["b"], rc.Cfg["c"] = 3, r.Intn(1<<20), r.Intn(3)
		}
	}
	rc.Cfg["version"] = []int{2, 3, 3, 23}[r.Intn(4)]
	if rc.Cfg["mode"] == 1 {
		rc.Cfg["version"] = rc.Cfg["a"] % 10
		rc.Cfg["collide"] = rc.Cfg["a"] / 10
	}
	rc.Cfg["state"] = r.Intn(len(c13States))
	pol := polFor(rc.Cfg["version"])
	extra := r.Intn(16) << 2
	rc.Parties = []PartyCfg{
		{KeyIdx: 0, Pol: pol | extra, Peer: 1, ErrHandler: r.Bool(), Tag: 0x1000 + uint32(r.Intn(1<<16))},
		{KeyIdx: 1, Pol: pol&^PolV2 | PolV3, Peer: 0, Ref: true, Tag: 0x20000 + uint32(r.Intn(1<<16))},
	}
	if rc.Cfg["version"] == 2 {
		rc.Parties[1].Pol = PolV2
	}
	if rc.Cfg["mode"] == 0 {
		switch c13States[rc.Cfg["state"]] {
		case "no-keys":
			rc.Parties[0].NoKeys = true
		case "otr-disabled":
			rc.Parties[0].Pol = extra
		case "key-with-long-q":
			// a genuine DSA key with a 2048 bit p and a 256 bit q (what current tools make): the key
			// parsers take it and it is offered for both versions
			rc.Parties[0].KeyIdx = 6
		}
	}
}

// monitor wraps one library call with the allocation monitor (panics are recovered by the caller or by Party.call).
func c13Alloc(inputLen int, f func()) (over bool, delta uint64) {
	var m0, m1 runtime.MemStats
	runtime.ReadMemStats(&m0)
	f()
	runtime.ReadMemStats(&m1)
	delta = m1.TotalAlloc - m0.TotalAlloc
	return delta > uint64(c13AllocBase+64*inputLen), delta
}

func c13Run(rc *RunCtx) *Violation {
	switch rc.Cfg["mode"] {
	case 1:
		return c13RandFault(rc)
	case 2:
		return c13KeyFileRun(rc)
	}
	return c13Hostile(rc)
}

// ---------------------------------------------------------------- (c) hostile Receive

func c13Parsers(rc *RunCtx, in []byte) *Violation {
	var v *Violation
	try := func(name string, f func()) {
		if v != nil {
			return
		}
		var pan interface{}
		over, delta := c13Alloc(len(in), func() {
			defer func() { pan = recover() }()
			f()
		})
		heartbeat.Add(1)
		if pan != nil {
			v = rc.Viol("parser.panic", fmt.Sprintf("%s panicked on %s: %v", name, short(in), pan), map[string]string{"fn": name})
		} else if over {
			v = rc.Viol("parser.alloc", fmt.Sprintf("%s allocated %d bytes for an input of %d bytes", name, delta, len(in)), map[string]string{"fn": name})
		}
	}
	raw := in
	if r, err := refotr.Dearmor(in); err == nil {
		raw = r
	}
	try("ExtractInstanceTags", func() { otr3.ExtractInstanceTags(in) })
	try("ExtractMPI", func() { otr3.ExtractMPI(raw) })
	try("ExtractMPIs", func() { otr3.ExtractMPIs(raw) })
	for _, off := range []int{3, 11} { // the same bytes as a message body would be handed to it (after a v2 / v3 header)
		if len(raw) > off {
			try("ExtractMPIs", func() { otr3.ExtractMPIs(raw[off:]) })
		}
	}
	try("ExtractData", func() { otr3.ExtractData(raw) })
	try("ExtractShort/Word", func() { otr3.ExtractShort(raw); otr3.ExtractWord(raw); otr3.ExtractLong(raw); otr3.ExtractTime(raw) })
	try("ParsePublicKey", func() { otr3.ParsePublicKey(raw) })
	try("ParsePrivateKey", func() { otr3.ParsePrivateKey(raw) })
	try("sexp.Read", func() { sexp.Read(bufio.NewReader(bytes.NewReader(in))) })
	return v
}

func c13Hostile(rc *RunCtx) *Violation {
	w := rc.NewWorld(rc.Parties)
	v, m := w.P[0], w.P[1]
	m.RefAuto = false
	state := c13States[rc.Cfg["state"]%len(c13States)]
	var viol *Violation
	inputs := 0
	w.Observers = append(w.Observers, func(p *Party, r *CallResult) {
		if p != v || viol != nil {
			return
		}
		if r.Panic != "" {
			viol = rc.Viol("panic", fmt.Sprintf("victim's %s panicked (state %s) on input %s: %s\n%s", r.Kind, state, short(r.In), r.Panic, r.Stack),
				map[string]string{"call": r.Kind, "panic": stripDigits(firstLine(r.Panic)), "where": panicSite(r.Stack)})
		}
	})
	// drive to the state
	deliverN := func(n int) {
		for k := 0; k < n; k++ {
			for _, l := range [][2]int{{0, 1}, {1, 0}} {
				if w.InFlight(l[0], l[1]) > 0 {
					w.Deliver(w.Take(l[0], l[1], 0))
					break
				}
			}
		}
	}
	switch state {
	case "ake-sent-commit":
		w.Put(1, 0, m.Query(), true, -1, -1, "query")
		deliverN(1)
	case "ake-sent-dhkey":
		w.Put(0, 1, v.Query(), true, -1, -1, "query")
		deliverN(2)
	case "ake-sent-revealsig":
		w.Put(1, 0, m.Query(), true, -1, -1, "query")
		deliverN(3)
	case "encrypted", "smp-expect2", "smp-waiting-secret", "finished":
		w.Handshake(0)
		for i := 0; i < 2; i++ {
			r := w.P[i].Send(w.GenText(w.P[i], 2, 0))
			w.Enqueue(w.P[i], r)
			w.Drain(100)
		}
		switch state {
		case "smp-expect2":
			r := v.SMPStart("", []byte("s"))
			w.Enqueue(v, r)
		case "smp-waiting-secret":
			r := m.SMPStart("", []byte("s"))
			w.Enqueue(m, r)
			w.Drain(100)
		case "finished":
			r := m.End()
			w.Enqueue(m, r)
			w.Drain(100)
		}
	}
	if viol != nil {
		return viol
	}
	// hostile inputs
	archive := func() [][]byte {
		var out [][]byte
		for _, x := range w.Arch {
			if x.To == 0 {
				out = append(out, x.Bytes)
			}
		}
		if len(out) == 0 {
			out = append(out, []byte("?OTRv23?"))
		}
		return out
	}
	gen := func() (Step, bool) {
		r := rc.Rng
		if len(rc.Steps) >= 12+r.Intn(30) {
			return Step{}, false
		}
		return Step{K: "hostile", A: r.Intn(9), B: r.Intn(1 << 16), C: r.Intn(1 << 16), D: r.Intn(1 << 16)}, true
	}
	craft := func(s Step) ([]byte, string) {
		ar := archive()
		src := ar[s.B%len(ar)]
		switch s.A % 7 {
		case 0:
			mu := MutateAny(nil, 1, src, s.C, s.D)
			return mu.Bytes, "mutated:" + mu.Class
		case 1: // truncate the raw form of a fresh, authentic data message (or a genuine one) at an offset
			var raw []byte
			if m.Ref.Encrypted {
				if d, err := m.Ref.BuildData(refotr.DataSpec{Text: []byte("hello")}); err == nil {
					raw = d.Raw()
				}
			}
			if raw == nil {
				if rr, err := refotr.Dearmor(src); err == nil {
					raw = rr
				} else {
					return src[:s.C%(len(src)+1)], "truncated-transport"
				}
			}
			return refotr.Armor(raw[:s.C%(len(raw)+1)]), "truncated"
		case 2: // authenticated but malicious plaintext
			if !m.Ref.Encrypted {
				return []byte("?OTR:AAMD."), "garbage"
			}
			plains := [][]byte{
				[]byte("t\x00\x00\x02\xff\xffAB"),                                          // TLV length beyond the end
				append([]byte("\x00\x00\x02\x00\x04"), 0xff, 0xff, 0xff, 0xff),             // SMP1 with 2^32-1 MPIs
				append([]byte("\x00\x00\x03\x00\x08"), 0, 0, 0, 1, 0x7f, 0xff, 0xff, 0xff), // SMP2: MPI with huge length
				[]byte("\x00\x00\x08\x00\x02ab"),                                           // extra key TLV shorter than its usage word
				[]byte("\x00\x00\x08\x00\x00"),                                             // empty extra key TLV
				[]byte("\x00\x00\x07\x00\x03abc"),                                          // SMP1Q without terminator
				[]byte("\x00\x00\x01\x00\x00\x00\x01\x00\x00"),                             // disconnect twice
				[]byte("\x00\xff\xff\x00\x00"),                                             // unknown TLV type
				[]byte("\x00\x00"),                                                         // truncated TLV header
				{},                                                                         // empty plaintext
				bytes.Repeat([]byte("\x00\x00\x00\x00\x00"), 2000),                         // many TLVs
				append([]byte("x\x00\x00\x05\x00\x04"), 0, 0, 0, 3),                        // SMP4 count 3 without data
				append([]byte("\x00\x00\x06\x00\x04"), 0, 0, 0, 0),                         // abort
				bytes.Repeat([]byte{'A'}, 70000),                                           // long text
			}
			// MPI counts whose product with 4 (or 8) wraps around 32 bits, alone and followed by a few MPIs
			for _, cnt := range []uint32{0x40000000, 0x40000001, 0x80000000, 0x80000001, 0xC0000000, 0xC0000002, 0x20000000, 0x20000001, 0xE0000000} {
				for _, typ := range []byte{2, 3, 4, 5} {
					v := refotr.PutInt(nil, cnt)
					for i := 0; i < int(cnt&3); i++ {
						v = refotr.PutMPI(v, big.NewInt(int64(7+i)))
					}
					pl := []byte{0, 0, typ, byte(len(v) >> 8), byte(len(v))}
					plains = append(plains, append(pl, v...))
				}
			}
			// SMP TLVs of every type with every MPI count around the expected ones
			for typ := 2; typ <= 7; typ++ {
				for cnt := 0; cnt <= 12; cnt++ {
					v := refotr.PutInt(nil, uint32(cnt))
					for i := 0; i < cnt; i++ {
						v = refotr.PutMPI(v, big.NewInt(int64(1000+i)))
					}
					if typ == 7 {
						v = append([]byte("q?\x00"), v...)
					}
					pl := []byte{0, 0, byte(typ)}
					pl = append(pl, byte(len(v)>>8), byte(len(v)))
					plains = append(plains, append(pl, v...))
				}
			}
			if s.D%3 != 0 {
				// several TLVs in ONE authentic message: what an earlier TLV does to the conversation
				// (disconnect wipes the session and the SMP machine, abort resets it, SMP steps move
				// it) is met by a well-formed later TLV of the same message
				smpTLV := func(typ byte, cnt int, q bool, empty bool) []byte {
					v := refotr.PutInt(nil, uint32(cnt))
					for i := 0; i < cnt; i++ {
						if empty {
							v = append(v, 0, 0, 0, 0)
						} else {
							v = refotr.PutMPI(v, big.NewInt(int64(2+i)))
						}
					}
					if q {
						v = append([]byte("q?\x00"), v...)
					}
					return append([]byte{0, typ, byte(len(v) >> 8), byte(len(v))}, v...)
				}
				atoms := [][]byte{
					{0, 1, 0, 0},                    // disconnect
					{0, 0, 0, 3, 0, 0, 0},           // padding
					smpTLV(2, 6, false, s.D%2 == 0), // SMP1
					smpTLV(7, 6, true, s.D%2 == 0),  // SMP1 with question
					smpTLV(3, 11, false, s.D%2 == 0),
					smpTLV(4, 8, false, s.D%2 == 0),
					smpTLV(5, 3, false, s.D%2 == 0),
					{0, 6, 0, 0},                       // abort
					{0, 8, 0, 6, 0, 0, 0, 1, 'k', 'k'}, // extra key
					{0xab, 0xcd, 0, 2, 1, 2},           // unknown type
					{0, 1, 0, 2, 'x', 'y'},             // disconnect with a body
				}
				n := len(atoms)
				var pl []byte
				if s.C%2 == 1 {
					pl = append(pl, "multi"...)
				}
				pl = append(pl, 0)
				idx := []int{(s.C / 2) % n, (s.C / 2 / n) % n}
				if t := (s.D / 3) % (n + 1); t < n {
					idx = append(idx, t)
				}
				for _, i := range idx {
					pl = append(pl, atoms[i]...)
				}
				d, err := m.Ref.BuildData(refotr.DataSpec{RawPlain: pl})
				if err != nil {
					return []byte("?OTR:AAMD."), "garbage"
				}
				return refotr.Armor(d.Raw()), fmt.Sprintf("authenticated-multi-tlv:%v", idx)
			}
			d, err := m.Ref.BuildData(refotr.DataSpec{RawPlain: plains[s.C%len(plains)]})
			if err != nil {
				return []byte("?OTR:AAMD."), "garbage"
			}
			return refotr.Armor(d.Raw()), fmt.Sprintf("authenticated-malicious:%d", s.C%len(plains))
		case 3: // huge length prefixes behind a valid header
			hdr := []byte{0, 3, []byte{0x02, 0x0a, 0x11, 0x12, 0x03}[s.C%5]}
			if rc.Cfg["version"] == 2 {
				hdr[1] = 2
			} else {
				hdr = refotr.PutInt(hdr, m.Ref.OurTag)
				hdr = refotr.PutInt(hdr, v.Conv.GetOurInstanceTag())
			}
			body := [][]byte{
				{0xff, 0xff, 0xff, 0xff},
				{0x7f, 0xff, 0xff, 0xff, 1, 2, 3},
				{0, 0, 0, 0, 0, 0, 0, 1, 0xff, 0xff, 0xff, 0xff, 0xff},
				append([]byte{0, 0, 0, 0, 1, 0, 0, 0, 2}, 0xff, 0xff, 0xff, 0xfe),
				{0, 0, 0, 0, 10},
				{},
				{0x40, 0, 0, 0, 0, 0, 0, 1, 5},
				{0x80, 0, 0, 1, 0, 0, 0, 1, 5},
				{0xC0, 0, 0, 0},
			}[s.D%9]
			return refotr.Armor(append(hdr, body...)), "huge-length"
		case 4:
			pr := Fork(rc.Seed, "garbage", uint64(s.B)<<16|uint64(s.C))
			pre := []string{"?OTR:", "?OTR?", "?OTRv", "?OTR?v", "?OTR Error:", "?OTR|", "?OTR,", "?OTR", "?OTR:AAMD", "?OTR:AAIC", "?OTR:AAEK", " \t  \t\t\t\t \t \t \t  ", "?OTRv23?\x00", ""}[s.C%14]
			return append([]byte(pre), pr.Bytes(s.D%300)...), "garbage:" + pre
		case 5:
			frs := []string{
				"?OTR|%08x|%08x,00001,00001,?OTR:AAMD.,", "?OTR|%08x|%08x,65535,65535,x,", "?OTR|%08x|%08x,00001,65535,", "?OTR|%08x|%08x,99999,99999,x,",
				"?OTR|%08x|%08x,-0001,00002,x,", "?OTR|%08x|%08x,1,2,x", "?OTR|%08x|%08x,,,,,,,", "?OTR|%08x|%08x,00001,00002,?OTR|,",
			}
			f := fmt.Sprintf(frs[s.C%len(frs)], m.Ref.OurTag, v.Conv.GetOurInstanceTag())
			if s.D%3 == 0 {
				f = strings.Replace(f, "?OTR|", "?OTR,", 1)
			}
			return []byte(f), "fragment-garbage"
		default:
			return cp(src), "replay"
		}
	}
	var pend [][]byte // what the victim emitted and the peer has not yet seen
	for {
		s, ok := rc.NextStep(gen)
		if !ok {
			break
		}
		if s.K != "hostile" {
			continue
		}
		if s.A%9 >= 7 {
			// genuine protocol progress between the hostile inputs: the peer's query (7), or the
			// peer's genuine reaction to what the victim last emitted (8). The hostile inputs then
			// meet states that only an answering peer can bring about.
			var ins [][]byte
			if s.A%9 == 7 {
				ins = append(ins, m.Query())
			} else {
				for _, o := range pend {
					mr := m.Receive(o)
					ins = append(ins, mr.Out...)
				}
				pend = nil
			}
			for _, in := range ins {
				var r *CallResult
				over, delta := c13Alloc(len(in), func() { r = v.Receive(in) })
				w.Fault("genuine-progress")
				if viol != nil {
					return viol
				}
				if over {
					return rc.Viol("alloc", fmt.Sprintf("Receive allocated %d bytes for a %d-byte genuine input (state %s)", delta, len(in), state), map[string]string{"class": "genuine"})
				}
				pend = append(pend, r.Out...)
			}
			continue
		}
		in, cls := craft(s)
		w.Fault("hostile:" + strings.SplitN(cls, ":", 2)[0])
		var r *CallResult
		over, delta := c13Alloc(len(in), func() { r = v.Receive(in) })
		inputs++
		if viol != nil {
			return viol
		}
		if over {
			return rc.Viol("alloc", fmt.Sprintf("Receive allocated %d bytes for a %d-byte input (%s, state %s)", delta, len(in), cls, state), map[string]string{"class": strings.SplitN(cls, ":", 2)[0]})
		}
		pend = append(pend, r.Out...)
		if len(pend) > 6 {
			pend = pend[len(pend)-6:]
		}
		if pv := c13Parsers(rc, in); pv != nil {
			return pv
		}
	}
	// the conversation must remain usable: a fresh exchange and a message in each direction
	if state != "no-keys" && state != "otr-disabled" && state != "key-with-long-q" { // (a key with a long q cannot sign for OTR: like having no key)
		if pv := c13Probe(rc, w, "hostile input in state "+state); pv != nil {
			return pv
		}
	} else if state == "otr-disabled" {
		txt := []byte("?OTR:plain pass-through")
		r := v.Receive(txt)
		if !bytes.Equal(r.Plain, txt) {
			return rc.Viol("unusable", "with OTR disabled Receive no longer hands messages through", nil)
		}
	}
	rc.Stats.Nontrivial = inputs >= 1
	rc.Stats.Sig = fmt.Sprintf("hostile v%d %s %s", rc.Cfg["version"], state, stepArgs(rc.Steps))
	rc.Probe("state_" + state)
	rc.ProbeN("hostile_inputs", inputs)
	return nil
}

func stepArgs(ss []Step) string {
	s := ""
	for _, x := range ss {
		s += fmt.Sprintf("%d.%d.%d ", x.A%9, x.B, x.C)
	}
	return s
}

func panicSite(stack string) string {
	for _, l := range strings.Split(stack, "\n") {
		if strings.Contains(l, "github.com/coyim/otr3.") && !strings.Contains(l, "Receive(") {
			l = strings.TrimSpace(l)
			if i := strings.Index(l, "("); i > 0 {
				l = l[:i]
			}
			return strings.TrimPrefix(l, "github.com/coyim/otr3.")
		}
	}
	return "?"
}

// c13Probe: after the faults stop, the victim (party 0) and a restarted peer
// complete a query-initiated exchange and exchange one text each way.
func c13Probe(rc *RunCtx, w *World, after string) *Violation {
	v := w.P[0]
	for i := range w.Links {
		for j := range w.Links[i] {
			w.Links[i][j] = nil
		}
	}
	if r := v.End(); r.Panic != "" {
		return rc.Viol("panic", "End panicked: "+r.Panic, map[string]string{"call": "end"})
	}
	try := func() bool {
		w.Crash(1, true) // the peer restarts (same instance tag) and knows nothing of the old session
		w.P[1].RefAuto = false
		w.Tick(tickDur[3])
		w.Put(1, 0, w.P[1].Query(), true, -1, -1, "probe-query")
		w.Drain(200)
		return v.Conv.IsEncrypted() && w.P[1].post().Enc
	}
	ok := try()
	if !ok && v.Cfg.Pol&(PolV2|PolV3) == PolV2|PolV3 {
		// the protocol version is sticky by design: a victim that allows both may have
		// committed to the other one (e.g. by a hostile but well-formed v2 query); the
		// probing peer then speaks that version
		w.P[1].Cfg.Pol ^= PolV2 | PolV3
		if w.P[1].Cfg.Pol&(PolV2|PolV3) == 0 {
			w.P[1].Cfg.Pol |= PolV2
		}
		for i := range w.Links {
			for j := range w.Links[i] {
				w.Links[i][j] = nil
			}
		}
		v.End()
		ok = try()
	}
	if !ok {
		return rc.Viol("unusable", fmt.Sprintf("after %s the conversation cannot complete a fresh key exchange (victim encrypted=%v, peer encrypted=%v)", after, v.Conv.IsEncrypted(), w.P[1].post().Enc),
			map[string]string{"what": "handshake"})
	}
	for i := 0; i < 2; i++ {
		p := w.P[i]
		txt := w.GenText(p, 2, 0)
		r := p.Send(txt)
		w.Enqueue(p, r)
		w.Drain(200)
		got := w.Got[1-i]
		if len(got) == 0 || !bytes.Equal(got[len(got)-1], txt) {
			return rc.Viol("unusable", fmt.Sprintf("after %s a probe text from %s is not delivered", after, p.Name), map[string]string{"what": "probe"})
		}
	}
	return nil
}

// ---------------------------------------------------------------- (a) randomness failure

func c13RandFault(rc *RunCtx) *Violation {
	k, mode := rc.Cfg["b"], rc.Cfg["c"]
	rc2collide := rc.Cfg["collide"] == 1
	w := rc.NewWorld(rc.Parties)
	v, m := w.P[0], w.P[1]
	v.Rand.FailAt, v.Rand.Mode = k, mode
	var viol *Violation
	w.Observers = append(w.Observers, func(p *Party, r *CallResult) {
		if p == v && r.Panic != "" && viol == nil {
			viol = rc.Viol("panic", fmt.Sprintf("victim's %s panicked when read number %d of Conversation.Rand failed (mode %d): %s\n%s", r.Kind, k, mode, r.Panic, r.Stack),
				map[string]string{"call": r.Kind, "where": panicSite(r.Stack)})
		}
	})
	// scripted scenario; every step tolerates failure of the previous ones
	// Once the fault has fired and the source works again, the session that is running must go on
	// working - not only a fresh one after End (that is what the final probe checks): two texts
	// each way have to arrive.
	firedSeen := 0
	sameSession := func() {
		if v.Rand.Fired == firedSeen || viol != nil {
			return
		}
		firedSeen = v.Rand.Fired
		pv, pm := v.post(), m.post()
		if !pv.Enc || !pm.Enc || pv.SSID != pm.SSID {
			return
		}
		for i := 0; i < 4 && viol == nil; i++ {
			from, to := m, v
			if i%2 == 1 {
				from, to = v, m
			}
			txt := w.GenText(from, 2, 0)
			r := from.Send(txt)
			got := false
			for _, o := range r.Out {
				if rr := to.Receive(o); bytes.Equal(rr.Plain, txt) {
					got = true
				} else if len(rr.Out) > 0 {
					for _, oo := range rr.Out {
						from.Receive(oo)
					}
				}
			}
			if viol == nil && !got && i >= 2 {
				// (the first round may still be lost to the interrupted operation itself)
				viol = rc.Viol("unusable", fmt.Sprintf("after read number %d of Conversation.Rand failed once (mode %d) the running session no longer carries messages: text %d from %s did not arrive (Send error %q)", k, mode, i, from.Name, r.Err),
					map[string]string{"after": "rand-fault-same-session"})
			}
		}
		rc.Probe("same_session_probe")
	}
	step := func(f func()) bool {
		f()
		w.Drain(300)
		sameSession()
		return viol == nil
	}
	collide := func() {
		// the victim has sent its DH-Commit; a commit whose hash is the highest possible arrives:
		// the victim has to give in and answer with a DH-Key for a freshly drawn exponent
		if !rc2collide {
			return
		}
		hdr := refotr.Header{Version: m.Ref.Version, Type: refotr.TypeDHCommit, SenderTag: m.Ref.OurTag, ReceiverTag: 0}
		c := &refotr.DHCommit{Header: hdr, EncGx: bytes.Repeat([]byte{7}, 196), HashGx: bytes.Repeat([]byte{0xff}, 32)}
		w.Put(1, 0, refotr.Armor(c.Raw()), false, -1, -1, "winning-commit")
		w.Fault("commit-collision")
	}
	ok := step(func() { w.Put(1, 0, m.Query(), true, -1, -1, "query"); w.Deliver(w.Take(1, 0, 0)); collide() }) && // victim initiates (Bob role)
		step(func() { w.Put(1, 0, m.Query(), true, -1, -1, "query") }) &&
		step(func() { r := v.Send(w.GenText(v, 2, 0)); w.Enqueue(v, r) }) &&
		step(func() { r := m.Send(w.GenText(m, 2, 0)); w.Enqueue(m, r) }) &&
		step(func() { r := v.Send(w.GenText(v, 2, 0)); w.Enqueue(v, r) }) &&
		step(func() { r := v.SMPStart("q?", []byte("s")); w.Enqueue(v, r) }) &&
		step(func() { r := m.SMPStart("", []byte("s")); w.Enqueue(m, r) }) &&
		step(func() { r := v.SMPAnswer([]byte("s")); w.Enqueue(v, r) }) &&
		step(func() { r := v.ExtraKey(7, []byte("u")); w.Enqueue(v, r) }) &&
		step(func() { r := v.End(); w.Enqueue(v, r) }) &&
		step(func() { m.End(); w.Tick(tickDur[3]); w.Put(0, 1, v.Query(), true, -1, -1, "query") }) && // victim responds (Alice role)
		step(func() { r := m.Send(w.GenText(m, 2, 0)); w.Enqueue(m, r) }) &&
		step(func() { r := v.Send(w.GenText(v, 2, 0)); w.Enqueue(v, r) })
	m.RefAuto = true
	if !ok || viol != nil {
		return viol
	}
	fired := v.Rand.Fired
	reads := v.Rand.Reads()
	// faults stop
	v.Rand.FailAt = -1
	if pv := c13Probe(rc, w, fmt.Sprintf("failure of random read %d (mode %d)", k, mode)); pv != nil {
		pv.Shape["k"] = "any"
		return pv
	}
	rc.Stats.Nontrivial = fired > 0
	rc.Stats.Sig = fmt.Sprintf("randfault v%d k%d m%d", rc.Cfg["version"], k, mode)
	rc.ProbeN("rand_faults_fired", fired)
	if fired == 0 {
		rc.Probe(fmt.Sprintf("fault_free_scenario_v%d_makes_%d_reads", rc.Cfg["version"], reads))
	}
	if fired == 0 && k < reads {
		rc.Probe("rand_fault_configured_but_not_fired")
	}
	rc.Probe(fmt.Sprintf("randfault_mode_%d", mode))
	return nil
}

// ---------------------------------------------------------------- (b) key file through a simulated reader

var errSimIO = errors.New("simulated I/O error")

// SimReader serves data in chosen chunk sizes, ends at cut (EOF) or fails at errAt.
type SimReader struct {
	data  []byte
	pos   int
	chunk int
	errAt int // -1: never
	reads int
}

func (s *SimReader) Read(b []byte) (int, error) {
	s.reads++
	heartbeat.Add(0)
	if s.errAt >= 0 && s.pos >= s.errAt {
		return 0, errSimIO
	}
	if s.pos >= len(s.data) {
		return 0, io.EOF
	}
	n := s.chunk
	if n <= 0 || n > len(b) {
		n = len(b)
	}
	if s.pos+n > len(s.data) {
		n = len(s.data) - s.pos
	}
	if s.errAt >= 0 && s.pos+n > s.errAt {
		n = s.errAt - s.pos
	}
	copy(b, s.data[s.pos:s.pos+n])
	s.pos += n
	return n, nil
}

func c13HostileFile(i int, seed uint64) []byte {
	kf := c13KeyFile()
	pr := Fork(seed, "keyfile", uint64(i))
	switch i % 12 {
	case 0:
		return bytes.Repeat([]byte("("), 20000)
	case 1:
		return bytes.Repeat([]byte(")"), 20000)
	case 2:
		return append([]byte("(privkeys "), bytes.Repeat([]byte("(account "), 5000)...)
	case 3:
		return []byte("(privkeys (account (name \"unterminated")
	case 4:
		return []byte("(privkeys (account (name x) (protocol y) (private-key (dsa (p #zz#) (q #00#)))))")
	case 5:
		return append([]byte("(privkeys (account (name x) (protocol y) (private-key (dsa (p #"), append(bytes.Repeat([]byte("FF"), 100000), []byte("#)))))")...)...)
	case 6:
		return pr.Bytes(4096)
	case 7:
		b := cp(kf)
		for k := 0; k < 20; k++ {
			b[pr.Intn(len(b))] = byte(pr.Intn(256))
		}
		return b
	case 8:
		return bytes.ReplaceAll(kf, []byte("#"), []byte("\""))
	case 9:
		return append(cp(kf), kf...)
	case 10:
		return []byte("(privkeys " + strings.Repeat("a ", 50000) + ")")
	default:
		return []byte{}
	}
}

func c13KeyFileRun(rc *RunCtx) *Violation {
	kf := c13KeyFile()
	if len(kf) < 100 {
		return &Violation{Prop: "C13", Rule: "harness.panic", Detail: "could not export the test key file"}
	}
	kind, off, chunkSel := rc.Cfg["a"], rc.Cfg["b"], rc.Cfg["c"]
	chunk := []int{1, 13, 0}[chunkSel%3]
	rd := &SimReader{data: kf, chunk: chunk, errAt: -1}
	what := ""
	switch kind {
	case 0:
		rd.data = kf[:off%(len(kf)+1)]
		what = fmt.Sprintf("key file truncated at offset %d", off%(len(kf)+1))
	case 1:
		rd.errAt = off % (len(kf) + 1)
		what = fmt.Sprintf("I/O error at offset %d", rd.errAt)
	case 2:
		rd.data = c13HostileFile(off, 1)
		what = fmt.Sprintf("hostile key file %d", off%12)
	default:
		rd.data = c13HostileFile(off, rc.Seed)
		what = fmt.Sprintf("random hostile key file %d", off%12)
	}
	if os.Getenv("VERIF_VERBOSE") != "" {
		fmt.Printf("C13DBG %s chunk=%d len=%d data=%q\n", what, chunk, len(rd.data), rd.data[:min2(len(rd.data), 300)])
	}
	var pan interface{}
	var accs []*otr3.Account
	var err error
	heartbeat.Add(1)
	over, delta := c13Alloc(len(rd.data), func() {
		defer func() { pan = recover() }()
		accs, err = otr3.ImportKeys(rd)
	})
	heartbeat.Add(1)
	if pan != nil {
		return rc.Viol("keyfile.panic", fmt.Sprintf("ImportKeys panicked on %s: %v", what, pan), map[string]string{"kind": fmt.Sprint(kind)})
	}
	if over {
		return rc.Viol("keyfile.alloc", fmt.Sprintf("ImportKeys allocated %d bytes for %d bytes of input (%s)", delta, len(rd.data), what), map[string]string{"kind": fmt.Sprint(kind)})
	}
	// a complete, untouched file must import both accounts; a truncated one must not yield a wrong key silently
	if kind == 0 && off%(len(kf)+1) == len(kf) {
		if err != nil || len(accs) != 2 {
			return rc.Viol("keyfile.import", fmt.Sprintf("the exported key file does not import (%v, %d accounts, chunk %d)", err, len(accs), chunk), nil)
		}
		for i, a := range accs {
			k, ok := a.Key.(*otr3.DSAPrivateKey)
			if !ok || k.X == nil || k.X.Cmp(TestKey(i).X) != 0 {
				return rc.Viol("keyfile.import", "imported key differs from the exported one", nil)
			}
		}
	}
	if err == nil {
		for _, a := range accs {
			if k, ok := a.Key.(*otr3.DSAPrivateKey); ok && k != nil && k.X != nil && kind <= 1 {
				// an account returned without error from a damaged stream must carry one of the real keys
				if k.X.Cmp(TestKey(0).X) != 0 && k.X.Cmp(TestKey(1).X) != 0 {
					return rc.Viol("keyfile.wrong-key", fmt.Sprintf("ImportKeys returned success with a private key that was never exported (%s)", what), nil)
				}
			}
		}
	}
	_ = big.NewInt
	rc.Stats.Nontrivial = true
	rc.Stats.Sig = fmt.Sprintf("keyfile %d %d %d", kind, off, chunk)
	rc.Probe(fmt.Sprintf("keyfile_kind_%d", kind))
	rc.ProbeN("keyfile_reader_calls", rd.reads)
	return nil
}
