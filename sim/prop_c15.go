package sim

import (
	"bytes"
	"fmt"
	"strconv"

	"github.com/coyim/otr3"

	"verifsim/refotr"
)

// C15 – instance tags isolate conversations between client instances (OTRv3).

func init() {
	Register(&PropDef{
		ID: "C15", Title: "instance tags isolate client instances",
		Config: c15Config, Run: c15Run, MaxSteps: 70,
		Rule: "runs = Alice and two instances of Bob (same long-term key, different instance tags) under OTRv3, plus an attacker who re-tags genuine messages and fragments (sender/receiver tag 0, 1..0xff, own tag, the other instance's tag, a foreign valid tag) in every state (before, during, after the AKE) and in any order; the own-tag generator is fed adversarial randomness (0, 1, 0xff, 0xffffffff ...). " +
			"oracles: own tag >= 0x100; the peer tag changes only from unknown to the sender tag of a message with valid tags addressed to this conversation; once bound, a message from another sender tag or to another receiver tag yields no plaintext, no reply, no security/SMP/key event and leaves IsEncrypted/SSID untouched; malformed tags never bind; the genuine peer instance still completes the handshake; ExtractInstanceTags equals the tags in the header of every emitted message and fragment. " +
			"non-trivial = at least 3 re-tagged messages were delivered and a session exists; distinct = distinct step sequences",
		Assume: []string{"OTRv2 has no instance tags and is excluded"},
	})
}

func c15Config(rc *RunCtx) {
	r := rc.Rng
	ta, t1, t2 := uint32(0x1000+r.Intn(1<<20)), uint32(0x200000+r.Intn(1<<20)), uint32(0x400000+r.Intn(1<<20))
	fa := 0
	if r.Chance(1, 3) {
		fa = []int{100, 200}[r.Intn(2)]
	}
	rc.Parties = []PartyCfg{
		{KeyIdx: 0, Pol: PolV3, Peer: 1, Tag: ta, ErrHandler: r.Bool()},
		{KeyIdx: 1, Pol: PolV3, Peer: 0, Tag: t1, Frag: fa},
		{KeyIdx: 1, Pol: PolV3, Peer: 0, Tag: t2, Frag: fa},
	}
	rc.Cfg["frag"] = fa
}

// tagsOf reads sender and receiver tag of a v3 message or fragment (the reference's reading).
func tagsOf(b []byte) (s, r uint32, ok bool) {
	if bytes.HasPrefix(b, []byte("?OTR|")) {
		if len(b) < 23 {
			return 0, 0, false
		}
		sv, e1 := strconv.ParseUint(string(b[5:13]), 16, 32)
		rv, e2 := strconv.ParseUint(string(b[14:22]), 16, 32)
		if e1 != nil || e2 != nil || b[13] != '|' || b[22] != ',' {
			return 0, 0, false
		}
		return uint32(sv), uint32(rv), true
	}
	if m, ok := parseAKELenient(b); ok {
		h := refotr.HeaderOf(m)
		if h.Version == 3 {
			return h.SenderTag, h.ReceiverTag, true
		}
		return 0, 0, false
	}
	if d, _, ok := parseDataLenient(b); ok && d.Version == 3 {
		return d.SenderTag, d.ReceiverTag, true
	}
	if raw, err := refotr.Dearmor(b); err == nil {
		if h, _, err := refotr.ParseHeader(raw); err == nil && h.Version == 3 {
			return h.SenderTag, h.ReceiverTag, true
		}
	}
	return 0, 0, false
}

func retag(b []byte, s, r uint32) []byte {
	if bytes.HasPrefix(b, []byte("?OTR|")) && len(b) >= 23 {
		out := []byte(fmt.Sprintf("?OTR|%08x|%08x", s, r))
		return append(out, b[22:]...)
	}
	raw, err := refotr.Dearmor(b)
	if err != nil || len(raw) < 11 || raw[1] != 3 {
		return nil
	}
	raw[3], raw[4], raw[5], raw[6] = byte(s>>24), byte(s>>16), byte(s>>8), byte(s)
	raw[7], raw[8], raw[9], raw[10] = byte(r>>24), byte(r>>16), byte(r>>8), byte(r)
	return refotr.Armor(raw)
}

func c15Run(rc *RunCtx) *Violation {
	// 1. own tag generation under adversarial randomness
	{
		c := &otr3.Conversation{}
		c.Policies.AllowV3()
		sr := NewSimRand(rc.Seed, nil)
		sr.Feed = [][]byte{{0, 0, 0, 0}, {0, 0, 0, 1}, {0, 0, 0, 0xff}, {0, 0, 0, 0}, {0, 0, 1, 0}}
		if rc.Seed%2 == 0 {
			sr.Feed = [][]byte{{0, 0, 0, 0xff}, {0xff, 0xff, 0xff, 0xff}}
		}
		c.Rand = sr
		if tag := c.InitializeInstanceTag(0); tag < 0x100 {
			return rc.Viol("own-tag.invalid", fmt.Sprintf("InitializeInstanceTag produced %#x", tag), nil)
		}
		if tag := c.GetOurInstanceTag(); tag < 0x100 {
			return rc.Viol("own-tag.invalid", fmt.Sprintf("GetOurInstanceTag returned %#x", tag), nil)
		}
	}
	// 5b. version 2 messages and fragments carry no instance tags: the helper must say so
	pr2 := Fork(rc.Seed, "c15v2", 0)
	for _, typ := range []byte{0x02, 0x0a, 0x11, 0x12, 0x03} {
		v2 := refotr.Armor(append([]byte{0, 2, typ}, pr2.Bytes(20+pr2.Intn(200))...))
		if ours, theirs, ok := otr3.ExtractInstanceTags(v2); ok {
			return rc.Viol("helper.tags", fmt.Sprintf("ExtractInstanceTags(%s) = (ours %#x, theirs %#x, ok true) for a version 2 message, which carries no instance tags", short(v2), ours, theirs), map[string]string{"kind": "v2-message"})
		}
	}
	// a tag is 8 hex digits: no sign, nothing that only fits after being cut down to 32 bits
	for _, f := range []string{"?OTR|-fffff00|00000100,00001,00002,QUJD,", "?OTR|00000100|-fffff00,00001,00002,QUJD,", "?OTR|+0000100|00000200,00001,00002,QUJD,"} {
		if ours, theirs, ok := otr3.ExtractInstanceTags([]byte(f)); ok {
			return rc.Viol("helper.tags", fmt.Sprintf("ExtractInstanceTags(%q) = (ours %#x, theirs %#x, ok true): the fragment carries no such tags", f, ours, theirs), map[string]string{"kind": "signed-tag"})
		}
	}
	if _, _, ok := otr3.ExtractInstanceTags([]byte("?OTR,00001,00002,QUJD,")); ok {
		return rc.Viol("helper.tags", "ExtractInstanceTags reports tags for a version 2 fragment", map[string]string{"kind": "v2-fragment"})
	}
	w := rc.NewWorld(rc.Parties)
	a := w.P[0]
	ta := rc.Parties[0].Tag
	inst := []uint32{0, rc.Parties[1].Tag, rc.Parties[2].Tag}
	var viol *Violation
	bound := uint32(0)
	retagged := 0
	prev := PostState{}
	w.Observers = append(w.Observers, func(p *Party, r *CallResult) {
		if viol != nil {
			return
		}
		// 5. the public helper must report the tags the message carries
		for _, o := range r.Out {
			if s, rt, ok := tagsOf(o); ok {
				ours, theirs, hok := otr3.ExtractInstanceTags(o)
				if !hok || ours != rt || theirs != s {
					viol = rc.Viol("helper.tags", fmt.Sprintf("ExtractInstanceTags(%s) = (ours %#x, theirs %#x, ok %v); the message carries sender %#x receiver %#x", short(o), ours, theirs, hok, s, rt),
						map[string]string{"kind": map[bool]string{true: "fragment", false: "message"}[bytes.HasPrefix(o, []byte("?OTR|"))]})
					return
				}
				rc.Probe("helper_checked")
			}
		}
		if p != a {
			return
		}
		defer func() { bound, prev = r.Post.TheirTag, r.Post }()
		if r.Panic != "" {
			viol = rc.Viol("panic", "A panicked: "+r.Panic, nil)
			return
		}
		if r.Kind != "recv" {
			if r.Post.TheirTag != bound {
				viol = rc.Viol("binding.changed", fmt.Sprintf("peer tag changed %#x -> %#x in a %s call", bound, r.Post.TheirTag, r.Kind), map[string]string{"how": r.Kind})
			}
			return
		}
		s, rt, ok := tagsOf(r.In)
		if !ok {
			if r.Post.TheirTag != bound {
				viol = rc.Viol("binding.changed", fmt.Sprintf("peer tag changed %#x -> %#x on input without tags %s", bound, r.Post.TheirTag, short(r.In)), map[string]string{"how": "untagged"})
			}
			return
		}
		valid := s >= 0x100 && (rt == 0 || rt == ta)
		malformed := s < 0x100 || (rt > 0 && rt < 0x100)
		if r.Post.TheirTag != bound {
			if bound != 0 {
				viol = rc.Viol("binding.changed", fmt.Sprintf("A was bound to peer instance %#x and is now bound to %#x (message tags %#x/%#x)", bound, r.Post.TheirTag, s, rt), map[string]string{"how": "rebind"})
				return
			}
			if !valid || r.Post.TheirTag != s {
				viol = rc.Viol("binding.invalid", fmt.Sprintf("A learnt peer tag %#x from a message with sender %#x receiver %#x (own tag %#x)", r.Post.TheirTag, s, rt, ta),
					map[string]string{"malformed": fmt.Sprint(malformed)})
				return
			}
		}
		foreign := bound != 0 && (s != bound || (rt != 0 && rt != ta))
		if foreign || malformed {
			what := "for another instance"
			if malformed {
				what = "with malformed tags"
			}
			var bad []string
			if r.Plain != nil {
				bad = append(bad, "plaintext")
			}
			for _, o := range r.Out {
				if !(malformed && bytes.HasPrefix(o, []byte("?OTR Error"))) {
					bad = append(bad, "reply")
				}
			}
			bad = append(bad, actedEvents(r)...)
			if r.Post.Enc != prev.Enc || (r.Post.Enc && r.Post.SSID != prev.SSID) {
				bad = append(bad, "session-changed")
			}
			if len(bad) > 0 {
				viol = rc.Viol("isolation", fmt.Sprintf("a message %s (sender %#x receiver %#x; A is %#x bound to %#x) was not ignored: %v", what, s, rt, ta, bound, bad),
					map[string]string{"what": what, "effect": bad[0]})
				return
			}
			rc.Probe("ignored_" + map[bool]string{true: "malformed", false: "foreign"}[malformed])
		}
	})
	gen := func() (Step, bool) {
		r := rc.Rng
		if len(rc.Steps) == 0 {
			return Step{K: "broadcast"}, true
		}
		var ls [][2]int
		for i := range w.Links {
			for j := range w.Links[i] {
				if len(w.Links[i][j]) > 0 {
					ls = append(ls, [2]int{i, j})
				}
			}
		}
		// deliver retag send broadcast tick end
		wt := []int{24, 8, 6, 1, 1, 1}
		if len(ls) == 0 {
			wt[0] = 0
		}
		switch r.Pick(wt) {
		case 0:
			l := ls[r.Intn(len(ls))]
			return Step{K: "deliver", A: l[0], B: l[1], C: 0}, true
		case 1:
			return Step{K: "retag", A: r.Intn(40), B: r.Intn(12)}, true
		case 2:
			return Step{K: "send", A: r.Intn(3), B: 2}, true
		case 3:
			return Step{K: "broadcast"}, true
		case 4:
			return Step{K: "tick", A: []int{1, 3}[r.Intn(2)]}, true
		default:
			return Step{K: "end", A: r.Intn(3)}, true
		}
	}
	kinds := ""
	for {
		st, ok := rc.NextStep(gen)
		if !ok {
			break
		}
		switch st.K {
		case "broadcast":
			// the user's client sends the query to every logged-in instance of the peer
			q := a.Query()
			w.Put(0, 1, q, true, -1, -1, "query")
			w.Put(0, 2, q, true, -1, -1, "query")
		case "retag":
			var cands []*Wire
			for _, x := range w.Arch {
				if x.To == 0 && x.Genuine {
					if _, _, ok := tagsOf(x.Bytes); ok {
						cands = append(cands, x)
					}
				}
			}
			if len(cands) == 0 {
				break
			}
			x := cands[len(cands)-1-st.A%len(cands)]
			s, rt, _ := tagsOf(x.Bytes)
			other := inst[1]
			if s == inst[1] {
				other = inst[2]
			}
			variants := [][2]uint32{{0, rt}, {1, rt}, {0xff, rt}, {s, 1}, {s, 0xff}, {other, rt}, {s, ta + 1}, {ta, rt}, {0x7777777, rt}, {s, 0}, {other, 0}, {0x50, 0x60}}
			vi := st.B % len(variants)
			if a.Conv.GetTheirInstanceTag() == 0 && (vi == 5 || vi == 7 || vi == 8 || vi == 10) {
				// a valid (if unknown) sender tag legitimately binds an unbound conversation: not an attack on isolation
				vi = []int{0, 1, 2, 11}[vi%4]
			}
			v := variants[vi]
			nb := retag(x.Bytes, v[0], v[1])
			if nb == nil {
				break
			}
			y := &Wire{ID: w.nextWire, From: x.From, To: 0, Bytes: nb, Note: fmt.Sprintf("retag:%d", st.B%len(variants)), Origin: x.ID, Class: "retag"}
			w.nextWire++
			w.Arch = append(w.Arch, y)
			w.Fault(fmt.Sprintf("retag:%d", st.B%len(variants)))
			retagged++
			w.Deliver(y)
		case "end":
			p := w.P[st.A%3]
			r := p.End()
			if p == a {
				for _, o := range r.Out {
					w.Put(0, 1, o, true, -1, r.Seq, "")
					w.Put(0, 2, o, true, -1, r.Seq, "")
				}
			} else {
				w.Enqueue(p, r)
			}
		case "send":
			p := w.P[st.A%3]
			r := p.Send(w.GenText(p, st.B, 0))
			if p == a {
				// A's messages reach both instances (the transport does not know instances)
				for _, o := range r.Out {
					w.Put(0, 1, o, true, -1, r.Seq, "")
					w.Put(0, 2, o, true, -1, r.Seq, "")
				}
			} else {
				w.Enqueue(p, r)
			}
		case "deliver":
			x := w.Take(st.A%3, st.B%3, 0)
			if x == nil {
				break
			}
			p := w.P[x.To]
			r := p.Receive(x.Bytes)
			x.Delivered++
			if r.Plain != nil {
				w.Got[p.Idx] = append(w.Got[p.Idx], r.Plain)
			}
			if p == a {
				for _, o := range r.Out {
					w.Put(0, 1, o, true, -1, r.Seq, "")
					w.Put(0, 2, o, true, -1, r.Seq, "")
				}
			} else {
				w.Enqueue(p, r)
			}
		default:
			w.Exec(st)
		}
		kinds += st.K[:2] + fmt.Sprint(st.A%3)
		if viol != nil {
			return viol
		}
	}
	// 4. the genuine handshake still completes with the instance A is (or becomes) bound to
	for n := 0; n < 3000 && w.TotalInFlight() > 0; n++ {
		for i := range w.Links {
			for j := range w.Links[i] {
				if len(w.Links[i][j]) > 0 {
					x := w.Take(i, j, 0)
					p := w.P[x.To]
					r := p.Receive(x.Bytes)
					if r.Plain != nil {
						w.Got[p.Idx] = append(w.Got[p.Idx], r.Plain)
					}
					if p == a {
						for _, o := range r.Out {
							w.Put(0, 1, o, true, -1, r.Seq, "")
							w.Put(0, 2, o, true, -1, r.Seq, "")
						}
					} else {
						w.Enqueue(p, r)
					}
				}
			}
		}
		if viol != nil {
			return viol
		}
	}
	if !a.Conv.IsEncrypted() {
		w.Tick(tickDur[3])
		q := a.Query()
		w.Put(0, 1, q, true, -1, -1, "query")
		w.Put(0, 2, q, true, -1, -1, "query")
		for n := 0; n < 200 && w.TotalInFlight() > 0; n++ {
			for i := range w.Links {
				for j := range w.Links[i] {
					if len(w.Links[i][j]) > 0 {
						x := w.Take(i, j, 0)
						p := w.P[x.To]
						r := p.Receive(x.Bytes)
						if p == a {
							for _, o := range r.Out {
								w.Put(0, 1, o, true, -1, r.Seq, "")
								w.Put(0, 2, o, true, -1, r.Seq, "")
							}
						} else {
							w.Enqueue(p, r)
						}
					}
				}
			}
		}
	}
	if viol != nil {
		return viol
	}
	if !a.Conv.IsEncrypted() {
		return rc.Viol("handshake", fmt.Sprintf("after the re-tagged traffic A (bound to %#x; instances %#x %#x) cannot complete a handshake with a genuine peer instance", a.Conv.GetTheirInstanceTag(), inst[1], inst[2]),
			map[string]string{"bound": fmt.Sprint(a.Conv.GetTheirInstanceTag() == inst[1] || a.Conv.GetTheirInstanceTag() == inst[2])})
	}
	bt := a.Conv.GetTheirInstanceTag()
	if bt != inst[1] && bt != inst[2] {
		return rc.Viol("binding.invalid", fmt.Sprintf("A is encrypted but bound to %#x, which is no instance of the peer", bt), map[string]string{"malformed": "final"})
	}
	// 6. a second client of A's account that has not sent anything yet - its own tag is not
	// generated, so NO receiver tag other than 0 can be its own - sees what the peer sent to A
	{
		var toA []*Wire
		for _, x := range w.Arch {
			if x.To == 0 && x.Genuine {
				if s, rt, ok := tagsOf(x.Bytes); ok && s >= 0x100 && rt >= 0x100 {
					toA = append(toA, x)
				}
			}
		}
		for k := 0; k < 6 && k < len(toA); k++ {
			x := toA[(int(rc.Seed%7)+k*5)%len(toA)]
			c := &otr3.Conversation{}
			c.Policies.AllowV3()
			c.Rand = NewSimRand(Mix(rc.Seed, "c15fresh", uint64(k)), nil)
			c.SetOurKeys([]otr3.PrivateKey{SharedKey(0)})
			var plain otr3.MessagePlaintext
			var out []otr3.ValidMessage
			pan := ""
			func() {
				defer func() {
					if e := recover(); e != nil {
						pan = fmt.Sprint(e)
					}
				}()
				plain, out, _ = c.Receive(cp(x.Bytes))
			}()
			_, rt, _ := tagsOf(x.Bytes)
			var bad []string
			if pan != "" {
				bad = append(bad, "panic: "+pan)
			}
			if plain != nil {
				bad = append(bad, "plaintext")
			}
			if len(out) > 0 {
				bad = append(bad, "reply")
			}
			if c.GetTheirInstanceTag() != 0 {
				bad = append(bad, "bound")
			}
			if c.IsEncrypted() {
				bad = append(bad, "encrypted")
			}
			if len(bad) > 0 {
				return rc.Viol("isolation", fmt.Sprintf("a conversation that has no own tag yet did not ignore %s addressed to instance %#x: %v", short(x.Bytes), rt, bad),
					map[string]string{"what": "fresh client without own tag", "effect": bad[0]})
			}
			rc.Probe("fresh_client_ignored")
		}
	}
	rc.Stats.Nontrivial = retagged >= 3
	rc.Stats.Sig = fmt.Sprintf("f%d %s", rc.Cfg["frag"], kinds)
	rc.ProbeN("retagged_delivered", retagged)
	return nil
}
