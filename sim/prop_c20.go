package sim

import (
	"fmt"
	"strings"
	"sync"
	"time"
)

// C20 – independent conversations do not interfere, also when run concurrently.
// mode 0: scheduled interleaving. Each conversation pair lives on its own
//         goroutine and parks before every API call; the simulator's PRNG
//         decides who proceeds (one seed = one interleaving, replayable,
//         shrinkable). Every pair's complete transcript must equal the
//         transcript of the same pair run alone with the same clock readings.
// mode 1: free-running parallel execution of the same pairs with no
//         synchronisation between them, in a binary built with the race
//         detector (./check builds C20 with -race). A race report kills the
//         worker (exit code 66) and is attributed to the seed; transcripts are
//         compared with the solo runs as well.

func init() {
	Register(&PropDef{
		ID: "C20", Title: "independent conversations do not interfere (also concurrently)",
		Config: c20Config, Run: c20Run, MaxSteps: 400, OwnsCrash: true, QuickS: 40,
		Rule: "runs = 3..6 independent conversation pairs (own seeds; handshake, traffic with rotations, injected errors, SMP, fragmentation, End and restart) executed (mode 0) on one goroutine each with a PRNG-chosen interleaving of their API calls and clock ticks in between, or (mode 1) free-running in parallel under the race detector (the harness touches no shared counter, lock or channel while they run, so it adds no happens-before edge of its own), or (mode 2) 5..8 goroutines each driving a pair of bare Conversations through the same life cycle at the same moment (clear-text sends with whitespace tags under differing version policies, query, AKE, data, SMP, extra key, End) with only a hash of everything returned kept; oracle = transcript (every call, wire byte, event, state sample) of each pair equals the solo run of that pair with the same per-call clock readings; zero race reports; " +
			"non-trivial = every pair made at least 20 API calls and at least 2 pairs were interleaved at call granularity; distinct = distinct (mode, schedule) signatures",
		Assume: []string{"the shared simulated clock is an input common to all pairs, not interference: the solo reference replays the per-call clock readings",
			"the race detector reports on the happens-before relation; with no synchronisation between the pairs that relation does not depend on timing"},
		NondetReplay: func(rc *RunCtx) bool { return rc.Cfg["mode"] != 0 },
	})
}

func c20Config(rc *RunCtx) {
	r := rc.Rng
	rc.Cfg["pairs"] = 3 + r.Intn(4)
	rc.Cfg["mode"] = []int{0, 0, 1, 2}[r.Intn(4)] // half scheduled, a quarter free-running pairs, a quarter bare-conversation hammer
	rc.Cfg["len"] = 30 + r.Intn(50)
}

type c20Pair struct {
	idx     int
	w       *World
	rng     *PRNG
	ask     [2]bool
	n       int
	limit   int
	times   []time.Duration // clock offset before each step (recorded when interleaved, replayed when solo)
	done    bool
	wsSends int           // clear-text sends that carried a whitespace tag
	held    []*CallResult // recent results whose returned slices are still referenced by the application
}

// aliased reports a message the library handed out earlier whose bytes changed afterwards.
func (p *c20Pair) aliased() string {
	for _, r := range p.held {
		for i := range r.OutRef {
			if i < len(r.Out) && string(r.OutRef[i]) != string(r.Out[i]) {
				return fmt.Sprintf("pair %d: message %d returned by call #%d (%s) changed after the call returned", p.idx, i, r.Seq, r.Kind)
			}
		}
	}
	return ""
}

func newC20Pair(rc *RunCtx, idx int, limit int) *c20Pair {
	seed := Mix(rc.Seed, "c20pair", uint64(idx))
	r := NewPRNG(seed)
	ver := []int{2, 3, 3, 23}[r.Intn(4)]
	pol := polFor(ver)
	f := []int{0, 0, 100, 300}[r.Intn(4)]
	// the other policy bits vary per pair: whitespace tags, whitespace start, error start
	// (require-encryption is left out so that clear-text sends happen before the session)
	xa, xb := (r.Intn(8)<<3)&(PolWSTag|PolWSStart|PolErrStart), (r.Intn(8)<<3)&(PolWSTag|PolWSStart|PolErrStart)
	// conversations of one account share the account's key object, as in an application
	cfgs := []PartyCfg{{KeyIdx: (2 * idx) % 4, Pol: pol | xa, Peer: 1, Frag: f, ErrHandler: r.Bool(), SharedKey: true}, {KeyIdx: (2*idx + 1) % 4, Pol: pol | xb, Peer: 0, Frag: f, ErrHandler: r.Bool(), SharedKey: true}}
	w := NewWorld(seed, cfgs)
	w.LogKeep = rc.KeepLog
	rc.worlds = append(rc.worlds, w)
	p := &c20Pair{idx: idx, w: w, rng: Fork(seed, "steps", 0), limit: limit}
	w.Observers = append(w.Observers, func(pp *Party, r *CallResult) {
		if r.HasEvent("smp", "AskForSecret") || r.HasEvent("smp", "AskForAnswer") {
			p.ask[pp.Idx] = true
		}
		if r.Kind == "smpanswer" || r.HasEvent("smp", "Abort") {
			p.ask[pp.Idx] = false
		}
		if r.Kind == "send" && len(r.Out) > 0 && strings.Contains(string(r.Out[0]), " \t  \t\t\t\t \t \t \t  ") {
			p.wsSends++
		}
		if len(r.OutRef) > 0 {
			p.held = append(p.held, r)
			if len(p.held) > 6 {
				p.held = p.held[1:]
			}
		}
	})
	return p
}

// step performs the pair's next action (at most one API call). false: finished.
func (p *c20Pair) step() bool {
	if p.done {
		return false
	}
	w, r := p.w, p.rng
	p.n++
	if p.n > p.limit {
		// teardown
		if w.TotalInFlight() > 0 {
			for i := range w.Links {
				for j := range w.Links[i] {
					if len(w.Links[i][j]) > 0 {
						w.Deliver(w.Take(i, j, 0))
						return true
					}
				}
			}
		}
		if w.P[0].Conv.IsEncrypted() {
			res := w.P[0].End()
			w.Enqueue(w.P[0], res)
			return true
		}
		p.done = true
		return false
	}
	fly := [2]int{w.InFlight(0, 1), w.InFlight(1, 0)}
	encA, encB := w.P[0].Conv.IsEncrypted(), w.P[1].Conv.IsEncrypted()
	// query sendA sendB delAB delBA end smpstart smpanswer extrakey errinj
	wt := []int{0, 8, 8, 18, 18, 0, 0, 0, 0, 1}
	if fly[0] == 0 {
		wt[3] = 0
	}
	if fly[1] == 0 {
		wt[4] = 0
	}
	if fly[0]+fly[1] == 0 && (!encA || !encB) {
		wt[0] = 12
	}
	if encA && encB {
		wt[5], wt[6], wt[8] = 1, 2, 1
		if p.ask[0] || p.ask[1] {
			wt[7] = 8
		}
	}
	switch r.Pick(wt) {
	case 0:
		w.Exec(Step{K: "query", A: r.Intn(2)})
		// the query is a user-level message; deliver it at once so that one action = one API call
		for i := range w.Links {
			for j := range w.Links[i] {
				if n := len(w.Links[i][j]); n > 0 && string(w.Links[i][j][n-1].Note) == "query" {
					w.Deliver(w.Take(i, j, n-1))
				}
			}
		}
	case 1:
		w.Exec(Step{K: "send", A: 0, B: 1 + r.Intn(4), C: r.Intn(2)})
	case 2:
		w.Exec(Step{K: "send", A: 1, B: 1 + r.Intn(4), C: r.Intn(2)})
	case 3:
		w.Exec(Step{K: "deliver", A: 0, B: 1})
	case 4:
		w.Exec(Step{K: "deliver", A: 1, B: 0})
	case 5:
		w.Exec(Step{K: "end", A: r.Intn(2)})
	case 6:
		w.Exec(Step{K: "smpstart", A: r.Intn(2), B: r.Intn(2), C: r.Intn(2)})
	case 7:
		who := 0
		if p.ask[1] && (!p.ask[0] || r.Bool()) {
			who = 1
		}
		w.Exec(Step{K: "smpanswer", A: who, C: r.Intn(2)})
	case 8:
		w.Exec(Step{K: "extrakey", A: r.Intn(2), B: r.Intn(100), C: r.Intn(3)})
	default:
		to := r.Intn(2)
		w.P[to].Receive([]byte("?OTR Error: x"))
	}
	return true
}

func c20Run(rc *RunCtx) *Violation {
	if rc.Cfg["mode"] == 2 {
		return c20Hammer(rc)
	}
	k := rc.Cfg["pairs"]
	limit := rc.Cfg["len"]
	for i := 0; i < 6; i++ {
		SharedKey(i) // all key objects exist before the goroutines start
	}
	pairs := make([]*c20Pair, k)
	for i := range pairs {
		pairs[i] = newC20Pair(rc, i, limit)
	}
	t0 := time.Now()
	switches := 0
	if rc.Cfg["mode"] == 1 {
		// ---- free-running parallel execution (race detector build)
		var wg sync.WaitGroup
		start := make(chan struct{})
		for _, p := range pairs {
			p.w.NoBeat = true
			wg.Add(1)
			go func(p *c20Pair) {
				defer wg.Done()
				<-start
				for p.step() {
					p.times = append(p.times, 0)
				}
			}(p)
		}
		noBeatPhase.Store(1)
		close(start)
		wg.Wait()
		noBeatPhase.Store(0)
		heartbeat.Add(1)
		rc.Probe("parallel_runs")
	} else {
		// ---- scheduled interleaving: one goroutine per pair, parked before every call
		turn := make([]chan bool, k)
		back := make(chan bool)
		closed := false
		closeAll := func() {
			if !closed {
				closed = true
				for _, ch := range turn {
					close(ch)
				}
			}
		}
		defer closeAll() // parked goroutines must leave before the bubble ends
		for i, p := range pairs {
			turn[i] = make(chan bool)
			go func(p *c20Pair, ch chan bool) {
				for range ch {
					back <- p.step()
				}
			}(p, turn[i])
		}
		alive := k
		last := -1
		gen := func() (Step, bool) {
			r := rc.Rng
			if alive == 0 {
				return Step{}, false
			}
			if r.Chance(1, 25) {
				return Step{K: "tick", A: r.Intn(len(tickDur))}, true
			}
			return Step{K: "run", A: r.Intn(k)}, true
		}
		for {
			s, ok := rc.NextStep(gen)
			if !ok {
				break
			}
			if s.K == "tick" {
				time.Sleep(tickDur[s.A%len(tickDur)])
				continue
			}
			i := s.A % k
			p := pairs[i]
			if p.done {
				continue
			}
			p.times = append(p.times, time.Since(t0))
			turn[i] <- true
			if !<-back {
				alive--
			}
			if last >= 0 && last != i {
				switches++
			}
			last = i
			for _, q := range pairs {
				if d := q.aliased(); d != "" {
					return rc.Viol("aliasing", d+" (while pair "+fmt.Sprint(i)+" was running): memory handed to one conversation's caller is shared", nil)
				}
			}
		}
		// finish whatever a shortened schedule left over, pair after pair
		for i, p := range pairs {
			for !p.done {
				p.times = append(p.times, time.Since(t0))
				turn[i] <- true
				<-back
			}
		}
		closeAll()
		rc.Probe("interleaved_runs")
	}
	// ---- solo reference runs with the same clock readings
	for i, p := range pairs {
		s0 := time.Now()
		solo := newC20Pair(rc, i, limit)
		for n := 0; ; n++ {
			if n < len(p.times) {
				if d := p.times[n] - time.Since(s0); d > 0 {
					time.Sleep(d)
				}
			}
			if !solo.step() {
				break
			}
		}
		if solo.w.Digest() != p.w.Digest() {
			where := firstLogDiff(p.w, solo.w)
			return rc.Viol("interference", fmt.Sprintf("pair %d behaves differently when run together with %d other pairs (mode %d) than when run alone: %s", i, k-1, rc.Cfg["mode"], where),
				map[string]string{"mode": fmt.Sprint(rc.Cfg["mode"])})
		}
		if p.w.Panics > 0 {
			rc.ProbeN("incidental_panics", p.w.Panics)
		}
	}
	minCalls := 1 << 30
	for _, p := range pairs {
		if p.w.Seq < minCalls {
			minCalls = p.w.Seq
		}
	}
	rc.Stats.Nontrivial = minCalls >= 20 && (rc.Cfg["mode"] == 1 || switches >= 10)
	rc.Stats.Sig = fmt.Sprintf("m%d k%d %s", rc.Cfg["mode"], k, runOrder(rc.Steps))
	rc.ProbeN("pair_switches", switches)
	rc.ProbeN("pairs", k)
	nws := 0
	for _, p := range pairs {
		if p.wsSends > 0 {
			nws++
		}
	}
	if nws >= 2 {
		rc.Probe(fmt.Sprintf("two_pairs_sent_whitespace_tags_mode%d", rc.Cfg["mode"]))
	}
	return nil
}

func runOrder(ss []Step) string {
	b := make([]byte, 0, len(ss))
	for _, s := range ss {
		if s.K == "run" {
			b = append(b, byte('0'+s.A%10))
		} else {
			b = append(b, 't')
		}
	}
	return string(b)
}

// firstLogDiff is only available when logs are kept (replay); otherwise it reports the digests.
func firstLogDiff(a, b *World) string {
	n := len(a.LogLines)
	if len(b.LogLines) < n {
		n = len(b.LogLines)
	}
	for i := 0; i < n; i++ {
		if a.LogLines[i] != b.LogLines[i] {
			x, y := a.LogLines[i], b.LogLines[i]
			if len(x) > 300 {
				x = x[:300]
			}
			if len(y) > 300 {
				y = y[:300]
			}
			return fmt.Sprintf("first difference at log line %d:\n  together: %s\n  alone:    %s", i, x, y)
		}
	}
	return fmt.Sprintf("transcript digests %s vs %s (lengths %d/%d)", a.Digest(), b.Digest(), len(a.LogLines), len(b.LogLines))
}
