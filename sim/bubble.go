//go:build go1.25

package sim

import (
	"testing"
	"testing/synctest"
)

// bubble runs f inside a testing/synctest bubble: time.Now() is a fake clock
// that only moves when the simulator sleeps (a "tick" step). The go.mod of the
// harness stays at go 1.23.0 (so that GODEBUG defaults match the library's own
// toolchain); this file alone opts into the newer language version.
func bubble(t *testing.T, f func(t *testing.T)) { synctest.Test(t, f) }
