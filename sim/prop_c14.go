package sim

import (
	"bytes"
	"fmt"

	"verifsim/refotr"
)

// C14 – fragmentation is lossless, bounded, and reassembled exactly once.
// Sender side: twin worlds with and without fragmentation (same seed, hence the
// same messages). Receiver side: the attacker permutes genuine fragment
// streams and injects fragments; the shadow reference (with the
// specification's reassembly rule) predicts what may be processed.

func init() {
	Register(&PropDef{
		ID: "C14", Title: "fragmentation lossless, bounded, reassembled exactly once",
		Config: c14Config, Run: c14Run, MaxSteps: 70, OwnsCrash: true,
		Rule: "sender runs = twin worlds (fragment size s vs. no fragmentation, same seed) sending texts of up to 70 000 bytes (armoured messages beyond 65535 bytes) with s from {minimum that leaves one payload byte, +1, +2, 60, 100, 1000, 65535, random}; every piece must be <= s, strictly well-formed, numbered 1..n <= 65535, and reassemble to exactly the twin's message; the peer must return each text exactly once. " +
			"receiver runs = genuine fragment streams are permuted by an attacker (drop, duplicate, reorder, restart, wrong total, index 0 / > n, index and total beyond 16 bits or negative, instance tags with a sign or more than 8 digits, foreign and malformed tags, garbage, a whole encoded message of another instance between the pieces, a whole message or a second stream interleaved, further fragments after completion); the shadow reference with the specification's reassembly rule must agree with the real party on every delivery; texts at most once. " +
			"non-trivial = at least 3 fragmented messages (sender) / 3 attacker actions on fragments (receiver); distinct = distinct (side, sizes, step sequence) signatures",
		Assume: []string{"fragment sizes below header+separator+1 byte carry no size obligation (only absence of a crash)", "message/size combinations that would need more than 65535 pieces are not generated"},
	})
}

func fragOverhead(version int) int {
	if version == 2 {
		return 18
	}
	return 36
}

func c14Config(rc *RunCtx) {
	r := rc.Rng
	rc.Cfg["version"] = []int{2, 3, 3}[r.Intn(3)]
	rc.Cfg["side"] = r.Intn(2) // 0 sender, 1 receiver
	oh := fragOverhead(rc.Cfg["version"])
	sizes := []int{oh + 1, oh + 2, oh + 3, 60, 100, 1000, 65535, oh + 1 + r.Intn(400), 200 + r.Intn(3000), 16384}
	rc.Cfg["s"] = sizes[r.Intn(len(sizes))]
	if rc.Cfg["side"] == 1 {
		rc.Cfg["s"] = []int{oh + 20, 100, 200, 500}[r.Intn(4)]
	}
	pol := polFor(rc.Cfg["version"])
	rc.Parties = []PartyCfg{{KeyIdx: 0, Pol: pol, Peer: 1, Tag: 0x1111 + uint32(r.Intn(1000))}, {KeyIdx: 1, Pol: pol, Peer: 0, Tag: 0x22222 + uint32(r.Intn(1000))}}
	if r.Chance(1, 3) {
		// tags near the top of the range: "-" followed by seven digits then has the width of a genuine tag
		rc.Parties[0].Tag = 0xf0001111 + uint32(r.Intn(1000))
	}
}

func c14Run(rc *RunCtx) *Violation {
	if rc.Cfg["side"] == 1 {
		return c14Receiver(rc)
	}
	return c14Sender(rc)
}

func c14Sender(rc *RunCtx) *Violation {
	s := rc.Cfg["s"]
	oh := fragOverhead(rc.Cfg["version"])
	w1 := rc.NewWorld(rc.Parties) // fragmenting sender
	w0 := rc.NewWorld(rc.Parties) // twin without fragmentation
	for _, w := range []*World{w1, w0} {
		if !w.Handshake(0) {
			return rc.Viol("setup.handshake", "AKE did not complete", nil)
		}
	}
	w1.P[0].SetFrag(s)
	fragmented := 0
	curS := s
	check := func(r1, r0 *CallResult) *Violation {
		if r1.Panic != "" {
			return rc.Viol("panic", fmt.Sprintf("A.%s with fragment size %d panicked: %s\n%s", r1.Kind, curS, r1.Panic, r1.Stack), map[string]string{"call": r1.Kind, "where": panicSite(r1.Stack)})
		}
		if r0.Panic != "" || len(r0.Out) == 0 {
			return nil
		}
		outs, err := reassembleOutputs(r1.Out)
		if err != nil {
			return rc.Viol("malformed", fmt.Sprintf("fragment size %d: %v", curS, err), map[string]string{"kind": "parse"})
		}
		if len(outs) != len(r0.Out) {
			return rc.Viol("lossy", fmt.Sprintf("fragment size %d: %d messages after reassembly, the unfragmented twin sent %d", curS, len(outs), len(r0.Out)), map[string]string{"kind": "count"})
		}
		for i, om := range outs {
			if !bytes.Equal(om.raw, r0.Out[i]) {
				return rc.Viol("lossy", fmt.Sprintf("fragment size %d: reassembled message %d differs from the unfragmented twin (%d vs %d bytes)", curS, i, len(om.raw), len(r0.Out[i])), map[string]string{"kind": "bytes"})
			}
			if curS >= oh+1 {
				if len(om.frags) == 0 && len(om.raw) > curS {
					return rc.Viol("too-long", fmt.Sprintf("fragment size %d: a message of %d bytes was sent unfragmented", curS, len(om.raw)), map[string]string{"kind": "unfragmented"})
				}
				for k, f := range om.frags {
					if len(f) > curS {
						return rc.Viol("too-long", fmt.Sprintf("fragment size %d: piece %d of %d is %d bytes long", curS, k+1, len(om.frags), len(f)), map[string]string{"kind": "piece"})
					}
					fi, err := refotr.ParseFragment(f)
					if err != nil || fi.K != k+1 || fi.N != len(om.frags) || fi.N > 65535 {
						return rc.Viol("malformed", fmt.Sprintf("fragment size %d: piece %d of %d is numbered %d/%d (%v)", curS, k+1, len(om.frags), fi.K, fi.N, err), map[string]string{"kind": "numbering"})
					}
					if fi.V3 && (fi.SenderTag != rc.Parties[0].Tag || fi.ReceiverTag != rc.Parties[1].Tag) {
						return rc.Viol("malformed", fmt.Sprintf("fragment carries tags %08x/%08x", fi.SenderTag, fi.ReceiverTag), map[string]string{"kind": "tags"})
					}
				}
				if len(om.frags) > 0 {
					fragmented++
				}
			}
		}
		return nil
	}
	gen := func() (Step, bool) {
		r := rc.Rng
		if len(rc.Steps) >= 10+r.Intn(20) {
			return Step{}, false
		}
		switch r.Pick([]int{10, 3, 10, 2}) {
		case 0:
			cls := []int{1, 3, 4, 5, 6, 7, 8}[r.Intn(7)]
			return Step{K: "send", A: 0, B: cls, C: r.Intn(2)}, true
		case 1:
			return Step{K: "send", A: 1, B: 2}, true
		case 2:
			return Step{K: "drain"}, true
		default:
			return Step{K: "resize", B: r.Intn(10), C: r.Intn(3000)}, true
		}
	}
	kinds := ""
	hugeSends := 0
	for {
		st, ok := rc.NextStep(gen)
		if !ok {
			break
		}
		switch st.K {
		case "send":
			// keep the piece count below 65535 (no obligation beyond)
			if st.A%2 == 0 && curS >= oh+1 {
				payload := curS - oh
				maxLen := []int{0, 3, 12, 40, 200, 900, 3000, 20000, 70000}[st.B%9]
				maxPieces := 4000 // quick tier: keep runs short; thorough goes to the protocol limit
				if rc.Thorough() {
					maxPieces = 65000
					// ... once per run: every piece is a wire message, an archive entry and a recorded
					// call; twenty messages of 65 000 pieces in each of 16 worker processes take tens of
					// gigabytes, and a worker killed for that is the machine's trouble, not otr3's
					if hugeSends > 0 {
						maxPieces = 8000
					}
				}
				for st.B > 1 && ([]int{0, 3, 12, 40, 200, 900, 3000, 20000, 70000}[st.B%9]*4/3+600)/payload+1 > maxPieces {
					st.B--
				}
				_ = maxLen
			}
			r1, _ := w1.Exec(st)
			r0, _ := w0.Exec(st)
			if r1 != nil && len(r1.Out) > 8000 {
				hugeSends++
			}
			if st.A%2 == 0 && r1 != nil && r0 != nil {
				if v := check(r1, r0); v != nil {
					return v
				}
			}
		case "drain":
			w1.Drain(200000)
			w0.Drain(200000)
			for i := 0; i < 2; i++ {
				if len(w1.Got[i]) != len(w0.Got[i]) {
					return rc.Viol("delivery", fmt.Sprintf("with fragmentation %s received %d texts, the twin %d", w1.P[i].Name, len(w1.Got[i]), len(w0.Got[i])), map[string]string{"kind": "count"})
				}
				for k := range w1.Got[i] {
					if !bytes.Equal(w1.Got[i][k], w0.Got[i][k]) {
						return rc.Viol("delivery", "texts received with fragmentation differ from the twin's", map[string]string{"kind": "content"})
					}
				}
			}
		case "resize":
			sizes := []int{oh + 1, oh + 2, oh + 3, 60, 100, 1000, 65535, oh + 1 + st.C, 5, oh}
			curS = sizes[st.B%len(sizes)]
			w1.P[0].SetFrag(curS)
		}
		kinds += st.K[:2]
	}
	w1.Drain(200000)
	w0.Drain(200000)
	if len(w1.Got[1]) != len(nonEmpty(w1.P[0].SentText)) {
		return rc.Viol("delivery", fmt.Sprintf("A sent %d texts through fragmentation, B returned %d", len(nonEmpty(w1.P[0].SentText)), len(w1.Got[1])), map[string]string{"kind": "exactly-once"})
	}
	rc.Stats.Nontrivial = fragmented >= 3
	rc.Stats.Sig = fmt.Sprintf("send v%d s%d %s", rc.Cfg["version"], s, kinds)
	rc.ProbeN("fragmented_messages_checked", fragmented)
	rc.Probe("sender_runs")
	return nil
}

func c14Receiver(rc *RunCtx) *Violation {
	w := rc.NewWorld(rc.Parties)
	o := NewOmni(w)
	a, b := w.P[0], w.P[1]
	if !w.Handshake(0) {
		return rc.Viol("setup.handshake", "AKE did not complete", nil)
	}
	a.SetFrag(rc.Cfg["s"])
	var viol *Violation
	var model refotr.Reassembler
	counts := map[string]int{}
	actions := 0
	justCompleted := false
	w.Observers = append(w.Observers, func(p *Party, r *CallResult) {
		if p != b || viol != nil || r.Kind != "recv" {
			return
		}
		if r.Panic != "" {
			viol = rc.Viol("panic", fmt.Sprintf("B.Receive panicked on %s: %s", short(r.In), r.Panic), map[string]string{"call": "recv", "where": panicSite(r.Stack)})
			return
		}
		justCompleted = r.Plain != nil && refotr.IsFragment(r.In)
		if r.Plain != nil && !r.HasEvent("msg", "ReceivedMessageUnencrypted") {
			// (what arrives in clear - here: pieces the attacker relabelled until they "reassemble" to
			// something that is not an OTR message - is shown to the user flagged as unencrypted, as
			// often as the attacker likes; exactly-once is about the peer's encrypted messages)
			counts[string(r.Plain)]++
			if counts[string(r.Plain)] > 1 {
				viol = rc.Viol("processed.twice", fmt.Sprintf("B returned the text %s twice", short(r.Plain)), nil)
				return
			}
		}
		// reassembly model (the specification's rule, with the v3 instance filter): a fragment that
		// does not complete a message must not make the party process anything
		if refotr.IsFragment(r.In) {
			complete := false
			if fi, err := refotr.ParseFragmentLenient(r.In); err == nil && fi.V3 == (rc.Cfg["version"] != 2) {
				if !fi.V3 || (fi.SenderTag == rc.Parties[0].Tag && (fi.ReceiverTag == 0 || fi.ReceiverTag == rc.Parties[1].Tag)) {
					complete = model.Add(fi.K, fi.N, fi.Piece) != nil
				}
			}
			if !complete {
				signs := ""
				if r.Plain != nil {
					signs += " plaintext"
				}
				for _, o := range r.Out {
					if !bytes.HasPrefix(o, []byte("?OTR Error")) {
						signs += " reply"
					}
				}
				for _, e := range r.Events {
					if e.Kind != "msg" || e.Name == "ReceivedMessageUnreadable" || e.Name == "ReceivedMessageNotInPrivate" || e.Name == "LogHeartbeatReceived" || e.Name == "SetupError" {
						signs += " event:" + e.Name
					}
				}
				if r.Err != "" && r.Err != "otr: invalid OTR fragment" {
					signs += " error:" + r.Err
				}
				if signs != "" {
					viol = rc.Viol("processed.without-complete-stream", fmt.Sprintf("the fragment %s (%s) does not complete a message by the reassembly rule, yet B processed one:%s", short(r.In), w.CurWire.Note, signs),
						map[string]string{"signs": stripDigits(signs)})
					return
				}
			}
		} else if refotr.IsArmored(r.In) && !foreignInstance(r.In, rc.Parties[0].Tag, rc.Parties[1].Tag) {
			// (a message from or for another instance is not part of this conversation and changes nothing, C15)
			model = refotr.Reassembler{} // a whole message in between: the spec's receiver forgets nothing, but otr3 documents forgetting; both are accepted, the model follows the implementation's documented choice
		}
		// the specification's verdict (shadow with the spec's reassembly rule) must match
		for _, d := range o.Div {
			viol = rc.Viol("reassembly.divergence", fmt.Sprintf("real party and specification disagree after the fragment %s: %s", short(r.In), d), map[string]string{"class": stripDigits(firstLine(d))[:min2(60, len(stripDigits(firstLine(d))))]})
			return
		}
	})
	gen := func() (Step, bool) {
		r := rc.Rng
		fly := w.InFlight(0, 1)
		if len(rc.Steps) >= 25+r.Intn(40) {
			return Step{}, false
		}
		if justCompleted && r.Chance(1, 2) {
			// place the fault right after a stream completed (the context then holds a finished message)
			return Step{K: "inject", A: r.Intn(18), B: r.Intn(1 << 16)}, true
		}
		// send deliver drop dup reorder inject whole deliverBA
		wt := []int{6, 20, 2, 3, 3, 5, 2, 3}
		if fly == 0 {
			wt[1], wt[2], wt[3], wt[4], wt[6] = 0, 0, 0, 0, 0
			wt[0] = 10
		}
		if w.InFlight(1, 0) == 0 {
			wt[7] = 0
		}
		switch r.Pick(wt) {
		case 0:
			return Step{K: "send", A: 0, B: 3 + r.Intn(3)}, true
		case 1:
			return Step{K: "deliver", A: 0, B: 1}, true
		case 2:
			return Step{K: "drop", A: 0, B: 1, C: r.Intn(4)}, true
		case 3:
			return Step{K: "dup", A: 0, B: 1, C: r.Intn(4)}, true
		case 4:
			return Step{K: "deliver", A: 0, B: 1, C: 1 + r.Intn(4)}, true
		case 5:
			return Step{K: "inject", A: r.Intn(18), B: r.Intn(1 << 16)}, true
		case 6:
			return Step{K: "whole"}, true
		default:
			return Step{K: "deliver", A: 1, B: 0}, true
		}
	}
	kinds := ""
	for {
		st, ok := rc.NextStep(gen)
		if !ok {
			break
		}
		switch st.K {
		case "inject":
			l := w.Links[0][1]
			var model refotr.FragInfo
			have := false
			if len(l) > 0 {
				if fi, err := refotr.ParseFragment(l[0].Bytes); err == nil {
					model, have = fi, true
				}
			}
			ta, tb := rc.Parties[0].Tag, rc.Parties[1].Tag
			mk := func(st2, rt uint32, k, n int, piece string) []byte {
				if rc.Cfg["version"] == 2 {
					return []byte(fmt.Sprintf("?OTR,%05d,%05d,%s,", k, n, piece))
				}
				return []byte(fmt.Sprintf("?OTR|%08x|%08x,%05d,%05d,%s,", st2, rt, k, n, piece))
			}
			k, n, piece := 2, 3, "QUJD"
			if have {
				k, n, piece = model.K, model.N, string(model.Piece)
			}
			var f []byte
			raw := func(stag, rtag, ks, ns, piece string) []byte {
				if rc.Cfg["version"] == 2 {
					return []byte(fmt.Sprintf("?OTR,%s,%s,%s,", ks, ns, piece))
				}
				return []byte(fmt.Sprintf("?OTR|%s|%s,%s,%s,%s,", stag, rtag, ks, ns, piece))
			}
			h8 := func(t uint32) string { return fmt.Sprintf("%08x", t) }
			switch st.A % 18 {
			case 12: // index and total that are what the receiver expects next - modulo 65536
				f = raw(h8(ta), h8(tb), fmt.Sprint(k+65536), fmt.Sprint(n+65536), piece)
			case 13:
				f = raw(h8(ta), h8(tb), fmt.Sprint(k+65536), fmt.Sprintf("%05d", n), piece)
			case 14: // negative numbers
				f = raw(h8(ta), h8(tb), fmt.Sprint(k-65536), fmt.Sprint(n-65536), piece)
			case 15: // instance tags with more than 8 hex digits / a sign, equal to the genuine ones modulo 2^32
				f = raw("1"+h8(ta), h8(tb), fmt.Sprintf("%05d", k), fmt.Sprintf("%05d", n), piece)
				if st.B%2 == 1 || ta > 0xf0000000 {
					f = raw(fmt.Sprintf("-%07x", uint64(1<<32)-uint64(ta)), h8(tb), fmt.Sprintf("%05d", k), fmt.Sprintf("%05d", n), piece)
				}
			case 16, 17: // a whole encoded message of (or for) another instance arrives between the pieces
				var src []byte
				for _, x := range w.Arch {
					if x.To == 1 && x.Genuine && refotr.IsArmored(x.Bytes) {
						src = x.Bytes
					}
				}
				if rawm, err := refotr.Dearmor(src); err == nil && len(rawm) > 11 && rawm[1] == 3 {
					rawm = cp(rawm)
					if st.A%18 == 16 {
						rawm[6]++ // sender tag + 1
					} else {
						rawm[10]++ // receiver tag + 1
					}
					f = refotr.Armor(rawm)
				} else {
					f = []byte("?OTR|garbage")
				}
			}
			switch st.A % 18 {
			case 0:
				f = mk(ta, tb, 0, n, piece)
			case 1:
				f = mk(ta, tb, n+1, n, piece)
			case 2:
				f = mk(ta, tb, k, n+1, piece) // wrong total
			case 3:
				f = mk(ta, tb, 1, n, piece) // restart
			case 4:
				f = mk(ta+1, tb, k, n, piece) // foreign sender instance
			case 5:
				f = mk(ta, tb+1, k, n, piece) // for another receiver instance
			case 6:
				f = mk(0x50, tb, k, n, piece) // malformed tag
			case 7:
				f = []byte("?OTR|garbage")
			case 8:
				f = mk(ta, tb, k, n, "")
			case 9:
				f = mk(ta, tb, k+2, n, piece) // skips ahead
			case 10:
				f = mk(ta, tb, 0, 0, piece)
			case 11:
				f = mk(ta, tb, 65535, 65535, "x")
			}
			y := &Wire{ID: w.nextWire, From: 0, To: 1, Bytes: f, Note: fmt.Sprintf("inject:%d", st.A%18), Origin: -1, Class: "inject"}
			w.nextWire++
			w.Arch = append(w.Arch, y)
			w.Fault(fmt.Sprintf("fragment-inject:%d", st.A%18))
			actions++
			w.Deliver(y)
		case "whole":
			// the attacker reassembles the stream at the head of the queue and delivers it whole, ahead of its pieces
			l := w.Links[0][1]
			var ra refotr.Reassembler
			for _, x := range l {
				fi, err := refotr.ParseFragment(x.Bytes)
				if err != nil {
					break
				}
				if whole := ra.Add(fi.K, fi.N, fi.Piece); whole != nil {
					y := &Wire{ID: w.nextWire, From: 0, To: 1, Bytes: whole, Note: "whole", Origin: -1, Class: "whole"}
					w.nextWire++
					w.Arch = append(w.Arch, y)
					w.Fault("fragment-whole-interleaved")
					actions++
					w.Deliver(y)
					break
				}
			}
		case "drop", "dup":
			actions++
			w.Exec(st)
		case "deliver":
			if st.C != 0 {
				actions++
			}
			w.Exec(st)
		default:
			w.Exec(st)
		}
		kinds += st.K[:2]
		if viol != nil {
			return viol
		}
	}
	w.Drain(5000)
	if viol != nil {
		return viol
	}
	rc.Stats.Nontrivial = actions >= 3
	rc.Stats.Sig = fmt.Sprintf("recv v%d s%d %s", rc.Cfg["version"], rc.Cfg["s"], kinds)
	rc.ProbeN("attacker_actions_on_fragments", actions)
	rc.Probe("receiver_runs")
	return nil
}

// foreignInstance reports whether an encoded v3 message carries a sender tag other than the
// peer's or a receiver tag that is neither zero nor ours.
func foreignInstance(msg []byte, peerTag, ourTag uint32) bool {
	raw, err := refotr.Dearmor(msg)
	if err != nil || len(raw) < 11 || raw[0] != 0 || raw[1] != 3 {
		return false
	}
	st := uint32(raw[3])<<24 | uint32(raw[4])<<16 | uint32(raw[5])<<8 | uint32(raw[6])
	rt := uint32(raw[7])<<24 | uint32(raw[8])<<16 | uint32(raw[9])<<8 | uint32(raw[10])
	return st != peerTag || (rt != 0 && rt != ourTag)
}
