package sim

import (
	"bufio"
	_ "embed"
	"encoding/hex"
	"fmt"
	"runtime/debug"
	"strings"

	"github.com/coyim/otr3"

	"verifsim/refotr"
)

//go:embed testdata/keys.txt
var keysTxt string

var testKeyBytes [][]byte

func init() {
	sc := bufio.NewScanner(strings.NewReader(keysTxt))
	sc.Buffer(make([]byte, 1<<16), 1<<16)
	for sc.Scan() {
		b, err := hex.DecodeString(strings.TrimSpace(sc.Text()))
		if err != nil || len(b) == 0 {
			continue
		}
		testKeyBytes = append(testKeyBytes, b)
	}
}

// TestKey returns a freshly parsed copy of fixed test key i (keys are long-term
// "durable" state: they survive crash/restart of a party).
// SharedKey returns ONE key object per index for the whole process: the way an
// application holds an account's key and hands the same object to all of the
// account's conversations (C20). Created before any goroutine is started.
var sharedKeys = func() []*otr3.DSAPrivateKey { return make([]*otr3.DSAPrivateKey, 16) }()

func SharedKey(i int) *otr3.DSAPrivateKey {
	i %= len(sharedKeys)
	if sharedKeys[i] == nil {
		sharedKeys[i] = TestKey(i)
	}
	return sharedKeys[i]
}

func TestKey(i int) *otr3.DSAPrivateKey {
	k := &otr3.DSAPrivateKey{}
	_, ok := k.Parse(testKeyBytes[i%len(testKeyBytes)])
	if !ok {
		panic("harness: bad embedded key")
	}
	return k
}

// Policy bits of the harness (not otr3's internal values).
const (
	PolV2 = 1 << iota
	PolV3
	PolReqEnc
	PolWSTag
	PolWSStart
	PolErrStart
)

type PartyCfg struct {
	KeyIdx     int    `json:"key"`
	Pol        int    `json:"pol"`
	Frag       int    `json:"frag"`
	ErrHandler bool   `json:"errh"`
	Tag        uint32 `json:"tag"`     // 0: draw from Rand at creation
	LazyTag    bool   `json:"lazytag"` // do not initialise the tag at creation
	NoKeys     bool   `json:"nokeys"`
	SharedKey  bool   `json:"sharedkey,omitempty"` // use the process-wide key object of this index (one account, many conversations)
	Peer       int    `json:"peer"`                // index of the party its output is sent to
	Ref        bool   `json:"ref,omitempty"`       // this party is the reference implementation (refotr.Peer), not a real Conversation
	RefFrag    int    `json:"reffrag,omitempty"`   // payload bytes per fragment for a reference party (0: no fragmentation)
}

type Event struct {
	Kind string // sec, msg, smp, err, key
	Name string
	Msg  []byte
	Err  string
	N    int
	Data []byte
}

func (e Event) String() string {
	s := e.Kind + ":" + e.Name
	if e.Msg != nil {
		s += fmt.Sprintf("[%x]", e.Msg)
	}
	if e.Err != "" {
		s += "{" + e.Err + "}"
	}
	if e.Kind == "smp" {
		s += fmt.Sprintf("(%d)", e.N)
		if e.Msg != nil {
			s += "q"
		}
	}
	if e.Kind == "key" {
		s += fmt.Sprintf("(%d,%x,%x)", e.N, e.Msg, e.Data)
	}
	return s
}

type PostState struct {
	Enc      bool
	SSID     [8]byte
	FP       string
	TheirTag uint32
	HL       int
}

type CallResult struct {
	Seq    int
	Party  int
	Kind   string
	In     []byte
	Plain  []byte // nil when Receive returned nil
	Out    [][]byte
	Err    string
	Panic  string
	Stack  string
	Events []Event
	Key    []byte
	Post   PostState
	WallNs int64
	OutRef [][]byte // the slices the library actually returned (Out holds copies made at once)
}

func (r *CallResult) HasEvent(kind, name string) bool {
	for _, e := range r.Events {
		if e.Kind == kind && e.Name == name {
			return true
		}
	}
	return false
}

func (r *CallResult) EventNames() []string {
	var s []string
	for _, e := range r.Events {
		s = append(s, e.Kind+":"+e.Name)
	}
	return s
}

type Party struct {
	W     *World
	Idx   int
	Name  string
	Cfg   PartyCfg
	Key   *otr3.DSAPrivateKey
	Conv  *otr3.Conversation
	Rand  *SimRand
	Incar int // incarnation (crash/restart count)
	cur   *CallResult

	Ref       *refotr.Peer // non-nil: reference party
	RefSecret []byte       // secret a reference party answers SMP with
	RefAuto   bool         // reference party drives SMP by itself
	RefRelay  *Party       // man in the middle: SMP TLVs received here are re-sent unchanged by this other reference party
	SMPResult []int        // results reported by the reference party's SMP steps
	refInbox  int

	Sends    int      // number of Send calls with generated text
	SentText [][]byte // all texts passed to Send (any incarnation)
	Calls    int
}

// otr3 handler interfaces
type handlers struct{ p *Party }

func (h handlers) HandleSMPEvent(ev otr3.SMPEvent, pp int, q string) {
	e := Event{Kind: "smp", Name: strings.TrimPrefix(ev.String(), "SMPEvent"), N: pp}
	if q != "" {
		e.Msg = []byte(q)
	}
	h.p.emit(e)
}
func (h handlers) HandleErrorMessage(ec otr3.ErrorCode) []byte {
	h.p.emit(Event{Kind: "err", Name: strings.TrimPrefix(ec.String(), "ErrorCode")})
	return []byte("E" + strings.TrimPrefix(ec.String(), "ErrorCode"))
}
func (h handlers) HandleMessageEvent(ev otr3.MessageEvent, m []byte, err error, trace ...interface{}) {
	e := Event{Kind: "msg", Name: strings.TrimPrefix(ev.String(), "MessageEvent")}
	if m != nil {
		e.Msg = append([]byte{}, m...)
	}
	if err != nil {
		e.Err = err.Error()
	}
	h.p.emit(e)
}
func (h handlers) HandleSecurityEvent(ev otr3.SecurityEvent) {
	h.p.emit(Event{Kind: "sec", Name: ev.String()})
}
func (h handlers) ReceivedSymmetricKey(usage uint32, usageData []byte, symkey []byte) {
	h.p.emit(Event{Kind: "key", Name: "extra", N: int(usage), Msg: append([]byte{}, usageData...), Data: append([]byte{}, symkey...)})
}

func (p *Party) emit(e Event) {
	if p.cur != nil {
		p.cur.Events = append(p.cur.Events, e)
	}
}

// build creates a fresh Conversation through the public API only.
func (p *Party) build() {
	if p.Cfg.Ref {
		p.buildRef()
		return
	}
	c := &otr3.Conversation{}
	if p.Cfg.Pol&PolV2 != 0 {
		c.Policies.AllowV2()
	}
	if p.Cfg.Pol&PolV3 != 0 {
		c.Policies.AllowV3()
	}
	if p.Cfg.Pol&PolReqEnc != 0 {
		c.Policies.RequireEncryption()
	}
	if p.Cfg.Pol&PolWSTag != 0 {
		c.Policies.SendWhitespaceTag()
	}
	if p.Cfg.Pol&PolWSStart != 0 {
		c.Policies.WhitespaceStartAKE()
	}
	if p.Cfg.Pol&PolErrStart != 0 {
		c.Policies.ErrorStartAKE()
	}
	p.Rand = NewSimRand(Mix(p.W.Seed, "rand."+p.Name, uint64(p.Incar)), &p.W.Seq)
	c.Rand = p.Rand
	if !p.Cfg.NoKeys {
		c.SetOurKeys([]otr3.PrivateKey{p.Key})
	}
	h := handlers{p}
	c.SetSMPEventHandler(h)
	c.SetMessageEventHandler(h)
	c.SetSecurityEventHandler(h)
	c.SetReceivedKeyHandler(h)
	if p.Cfg.ErrHandler {
		c.SetErrorMessageHandler(h)
	}
	if p.Cfg.Frag > 0 {
		c.SetFragmentSize(uint16(p.Cfg.Frag))
	}
	if !p.Cfg.LazyTag {
		c.InitializeInstanceTag(p.Cfg.Tag)
	}
	p.Conv = c
}

func (p *Party) buildRef() {
	p.Rand = NewSimRand(Mix(p.W.Seed, "rand."+p.Name, uint64(p.Incar)), &p.W.Seq)
	v := uint16(3)
	if p.Cfg.Pol&PolV3 == 0 {
		v = 2
	}
	tag := p.Cfg.Tag
	for tag < 0x100 {
		var b [4]byte
		_, _ = p.Rand.Read(b[:])
		tag = uint32(b[0])<<24 | uint32(b[1])<<16 | uint32(b[2])<<8 | uint32(b[3])
	}
	p.Ref = refotr.NewPeer(v, &p.Key.PrivateKey, p.Rand, tag)
	p.refInbox = 0
	p.RefAuto = true
	if p.RefSecret == nil {
		p.RefSecret = SecretByID(0)
	}
}

func (p *Party) refPost() PostState {
	s := PostState{Enc: p.Ref.Encrypted, SSID: p.Ref.SSID, TheirTag: p.Ref.TheirTag, HL: 1}
	if p.Ref.TheirPub != nil {
		s.FP = hex.EncodeToString(refotr.Fingerprint(p.Ref.TheirPub))
	}
	if p.Ref.Initiator {
		s.HL = 0
	}
	return s
}

// refOut fragments a reference party's output if configured.
func (p *Party) refOut(msgs [][]byte) [][]byte {
	if p.Cfg.RefFrag <= 0 {
		return msgs
	}
	var out [][]byte
	for _, m := range msgs {
		if refotr.IsArmored(m) && len(m) > p.Cfg.RefFrag {
			out = append(out, refotr.Fragment(p.Ref.Version, p.Ref.OurTag, p.Ref.TheirTag, m, p.Cfg.RefFrag)...)
		} else {
			out = append(out, m)
		}
	}
	return out
}

func (p *Party) post() PostState {
	if p.Ref != nil {
		return p.refPost()
	}
	c := p.Conv
	s := PostState{Enc: c.IsEncrypted(), SSID: c.GetSSID(), TheirTag: c.GetTheirInstanceTag()}
	if k := c.GetTheirKey(); k != nil {
		func() {
			defer func() { _ = recover() }()
			s.FP = hex.EncodeToString(k.Fingerprint())
		}()
	}
	_, s.HL = c.SecureSessionID()
	return s
}

// call wraps one public API call: recover, event capture, logging.
func (p *Party) call(kind string, in []byte, f func(r *CallResult)) *CallResult {
	w := p.W
	w.Seq++
	r := &CallResult{Seq: w.Seq, Party: p.Idx, Kind: kind, In: in}
	p.cur = r
	p.Calls++
	w.beat()
	func() {
		defer func() {
			if x := recover(); x != nil {
				r.Panic = fmt.Sprint(x)
				r.Stack = string(debug.Stack())
			}
		}()
		f(r)
	}()
	p.cur = nil
	func() {
		defer func() {
			if x := recover(); x != nil && r.Panic == "" {
				r.Panic = "post:" + fmt.Sprint(x)
			}
		}()
		r.Post = p.post()
	}()
	w.logCall(p, r)
	w.Last = r
	if r.Panic != "" {
		w.Panics++
	}
	for _, e := range r.Events {
		w.EvCount[e.Kind+":"+e.Name]++
	}
	for _, o := range w.Observers {
		o(p, r)
	}
	return r
}

func cp(b []byte) []byte {
	if b == nil {
		return nil
	}
	return append([]byte{}, b...)
}

func cpMsgs(ms []otr3.ValidMessage) [][]byte {
	var out [][]byte
	for _, m := range ms {
		out = append(out, append([]byte{}, m...))
	}
	return out
}

func refMsgs(ms []otr3.ValidMessage) [][]byte {
	var out [][]byte
	for _, m := range ms {
		out = append(out, []byte(m))
	}
	return out
}

func errStr(e error) string {
	if e == nil {
		return ""
	}
	return e.Error()
}

func (p *Party) Send(text []byte) *CallResult {
	p.SentText = append(p.SentText, cp(text))
	return p.call("send", cp(text), func(r *CallResult) {
		if p.Ref != nil {
			if !p.Ref.Encrypted {
				r.Out = [][]byte{cp(text)}
				return
			}
			m, err := p.Ref.Send(cp(text), nil, 0)
			if err == nil {
				r.Out = p.refOut([][]byte{m})
			}
			r.Err = errStr(err)
			return
		}
		out, err := p.Conv.Send(otr3.ValidMessage(cp(text)))
		r.Out, r.Err, r.OutRef = cpMsgs(out), errStr(err), refMsgs(out)
	})
}

func (p *Party) Receive(msg []byte) *CallResult {
	return p.call("recv", cp(msg), func(r *CallResult) {
		if p.Ref != nil {
			p.refReceive(r, msg)
			return
		}
		plain, out, err := p.Conv.Receive(otr3.ValidMessage(cp(msg)))
		if plain != nil {
			r.Plain = append([]byte{}, plain...)
		}
		r.Out, r.Err, r.OutRef = cpMsgs(out), errStr(err), refMsgs(out)
	})
}

func (p *Party) End() *CallResult {
	return p.call("end", nil, func(r *CallResult) {
		if p.Ref != nil {
			if p.Ref.Encrypted {
				m, err := p.Ref.Disconnect()
				if err == nil {
					r.Out = p.refOut([][]byte{m})
				}
				r.Err = errStr(err)
			}
			p.Ref.Encrypted, p.Ref.Finished = false, false
			return
		}
		out, err := p.Conv.End()
		r.Out, r.Err = cpMsgs(out), errStr(err)
	})
}

func (p *Party) SMPStart(question string, secret []byte) *CallResult {
	return p.call("smpstart", append([]byte(question+"|"), secret...), func(r *CallResult) {
		if p.Ref != nil {
			p.RefSecret = cp(secret)
			m, err := p.Ref.SMPStart(cp(secret), []byte(question), question != "")
			if err == nil {
				r.Out = p.refOut([][]byte{m})
			}
			r.Err = errStr(err)
			return
		}
		out, err := p.Conv.StartAuthenticate(question, cp(secret))
		r.Out, r.Err = cpMsgs(out), errStr(err)
	})
}

func (p *Party) SMPAnswer(secret []byte) *CallResult {
	return p.call("smpanswer", cp(secret), func(r *CallResult) {
		out, err := p.Conv.ProvideAuthenticationSecret(cp(secret))
		r.Out, r.Err = cpMsgs(out), errStr(err)
	})
}

func (p *Party) SMPAbort() *CallResult {
	return p.call("smpabort", nil, func(r *CallResult) {
		out, err := p.Conv.AbortAuthentication()
		r.Out, r.Err = cpMsgs(out), errStr(err)
	})
}

func (p *Party) ExtraKey(usage uint32, data []byte) *CallResult {
	return p.call("extrakey", cp(data), func(r *CallResult) {
		k, out, err := p.Conv.UseExtraSymmetricKey(usage, cp(data))
		r.Key, r.Out, r.Err = cp(k), cpMsgs(out), errStr(err)
	})
}

// Query returns the query message the user would send to start OTR (no state change).
func (p *Party) Query() []byte {
	if p.Ref != nil {
		return p.Ref.Query()
	}
	return cp(p.Conv.QueryMessage())
}

func (p *Party) SetFrag(n int) {
	p.Cfg.Frag = n
	if p.Ref != nil {
		return
	}
	p.Conv.SetFragmentSize(uint16(n))
}

// refReceive lets a reference party process one transport message; if RefAuto
// is set it also drives its SMP state machine with RefSecret.
func (p *Party) refReceive(r *CallResult, msg []byte) {
	out, err := p.Ref.Receive(cp(msg))
	r.Err = errStr(err)
	for p.refInbox < len(p.Ref.Inbox) {
		d := p.Ref.Inbox[p.refInbox]
		p.refInbox++
		if len(d.Text) > 0 {
			r.Plain = cp(d.Text)
		}
		for _, t := range d.TLVs {
			switch {
			case t.Type >= refotr.TLVSMP1 && t.Type <= refotr.TLVSMP1Q:
				if p.RefRelay != nil && p.RefRelay.Ref.Encrypted {
					q := p.RefRelay
					if m, err := q.Ref.SendTLV(t); err == nil {
						p.W.Put(q.Idx, q.Cfg.Peer, m, false, -1, -1, "relayed-smp")
						p.W.Fault("relay-smp")
					}
					continue
				}
				if !p.RefAuto {
					continue
				}
				m, res, serr := p.Ref.SMPStep(t, p.RefSecret)
				p.SMPResult = append(p.SMPResult, res)
				name := []string{"InProgress", "Success", "Failure", "Abort"}
				if res >= 0 && res < len(name) {
					p.emit(Event{Kind: "smp", Name: name[res]})
				}
				if serr != nil {
					p.emit(Event{Kind: "smp", Name: "Cheated", Err: serr.Error()})
				}
				if m != nil {
					out = append(out, m)
				}
			case t.Type == refotr.TLVExtraKey:
				p.emit(Event{Kind: "key", Name: "extra", Data: cp(d.ExtraKey), Msg: cp(t.Value)})
			case t.Type == refotr.TLVDisconnected:
				p.emit(Event{Kind: "sec", Name: "GoneInsecure"})
			}
		}
	}
	r.Out = p.refOut(out)
}

// SMPStartRaw / SMPAnswerRaw hand the caller's slice to the library as it is (no
// defensive copy), the way an application that keeps the secret in one buffer would.
func (p *Party) SMPStartRaw(question string, secret []byte) *CallResult {
	return p.call("smpstart", append([]byte(question+"|"), secret...), func(r *CallResult) {
		out, err := p.Conv.StartAuthenticate(question, secret)
		r.Out, r.Err = cpMsgs(out), errStr(err)
	})
}

func (p *Party) SMPAnswerRaw(secret []byte) *CallResult {
	return p.call("smpanswer", cp(secret), func(r *CallResult) {
		out, err := p.Conv.ProvideAuthenticationSecret(secret)
		r.Out, r.Err = cpMsgs(out), errStr(err)
	})
}
