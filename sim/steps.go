package sim

import (
	"fmt"
	"time"
)

var tickDur = []time.Duration{0, time.Second, 59 * time.Second, 61 * time.Second, 10 * time.Minute, 30 * time.Second}

// fragment sizes; the last three leave 1..4 payload bytes per piece (v3 overhead 36, v2 overhead 18) and are drawn rarely
var fragSizes = []int{0, 60, 100, 200, 1000, 65535, 150, 77, 40, 37, 19}

// PickFrag draws a fragment-size index, tiny sizes with low probability.
func PickFrag(r *PRNG) int {
	if r.Chance(1, 12) {
		return 8 + r.Intn(3)
	}
	return r.Intn(8)
}

func SecretByID(id int) []byte {
	long := func() []byte {
		b := make([]byte, 4096)
		for i := range b {
			b[i] = byte(i*7 + 1)
		}
		return b
	}
	switch id % 12 {
	case 7: // the long secret with its very last bit flipped
		b := long()
		b[len(b)-1] ^= 1
		return b
	case 8: // the long secret with one bit flipped a little beyond the size of an SMP exponent
		b := long()
		b[200] ^= 0x10
		return b
	case 9:
		return []byte("correct horse battery staple")
	case 10: // 9 is a prefix of this one
		return []byte("correct horse battery staples")
	case 11: // a prefix of the long secret
		return long()[:300]
	}
	switch id % 12 {
	case 0:
		return []byte("s3cret")
	case 1:
		return []byte("s3cres") // differs from 0 in one bit ('t' 0x74 vs 's' 0x73 is 3 bits; close enough) -> see 6
	case 2:
		return []byte{}
	case 3:
		return []byte("x")
	case 4:
		b := make([]byte, 4096)
		for i := range b {
			b[i] = byte(i*7 + 1)
		}
		return b
	case 5:
		return []byte{0, 1, 0, 255, 0, 0, 7}
	default:
		return []byte("s3creu") // differs from "s3cret" in exactly one bit (0x74 vs 0x75)
	}
}

// Exec executes one common step. It returns the call result if the step made
// exactly one API call (nil otherwise). Unknown kinds are left to the caller.
func (w *World) Exec(s Step) (*CallResult, bool) {
	n := len(w.P)
	switch s.K {
	case "send":
		p := w.P[s.A%n]
		txt := w.GenText(p, s.B, s.C)
		r := p.Send(txt)
		w.Enqueue(p, r)
		return r, true
	case "sendraw": // empty text
		p := w.P[s.A%n]
		r := p.Send([]byte{})
		w.Enqueue(p, r)
		return r, true
	case "deliver":
		x := w.Take(s.A%n, s.B%n, s.C)
		if x == nil {
			w.Logf("noop %s", s)
			return nil, true
		}
		if s.C != 0 {
			w.Fault("reorder")
		}
		return w.Deliver(x), true
	case "drop":
		x := w.Take(s.A%n, s.B%n, s.C)
		if x == nil {
			w.Logf("noop %s", s)
			return nil, true
		}
		w.Fault("drop")
		w.Logf("drop wire=%d", x.ID)
		return nil, true
	case "dup":
		l := w.Links[s.A%n][s.B%n]
		if len(l) == 0 {
			w.Logf("noop %s", s)
			return nil, true
		}
		x := l[s.C%len(l)]
		y := w.Put(x.From, x.To, x.Bytes, x.Genuine, x.ID, x.Call, "dup")
		y.Epoch = x.Epoch
		// provenance: a copy derives from the same genuine message as its source
		y.Origin, y.AuthChanged, y.Class = x.Origin, x.AuthChanged, x.Class
		if y.Origin < 0 {
			y.Origin = x.ID
		}
		w.Fault("dup")
		return nil, true
	case "tick":
		w.Tick(tickDur[s.A%len(tickDur)])
		if s.A%len(tickDur) != 0 {
			w.Fault("tick")
		}
		return nil, true
	case "query":
		p := w.P[s.A%n]
		w.Put(p.Idx, p.Cfg.Peer, p.Query(), true, -1, -1, "query")
		w.Logf("query %s", p.Name)
		return nil, true
	case "end":
		p := w.P[s.A%n]
		r := p.End()
		w.Enqueue(p, r)
		return r, true
	case "smpstart":
		p := w.P[s.A%n]
		q := ""
		if s.B%2 == 1 {
			q = fmt.Sprintf("question-%d?", s.B)
		}
		r := p.SMPStart(q, SecretByID(s.C))
		w.Enqueue(p, r)
		return r, true
	case "smpanswer":
		p := w.P[s.A%n]
		r := p.SMPAnswer(SecretByID(s.C))
		w.Enqueue(p, r)
		return r, true
	case "smpabort":
		p := w.P[s.A%n]
		r := p.SMPAbort()
		w.Enqueue(p, r)
		return r, true
	case "extrakey":
		p := w.P[s.A%n]
		r := p.ExtraKey(uint32(s.B), []byte(fmt.Sprintf("usage-%d", s.C)))
		w.Enqueue(p, r)
		return r, true
	case "setfrag":
		p := w.P[s.A%n]
		p.SetFrag(fragSizes[s.B%len(fragSizes)])
		w.Logf("setfrag %s %d", p.Name, p.Cfg.Frag)
		return nil, true
	case "crash":
		w.Crash(s.A%n, s.B%2 == 1)
		return nil, true
	}
	return nil, false
}

// Handshake runs a query-initiated AKE started by party a over reliable FIFO
// links and reports whether both ends are encrypted afterwards.
func (w *World) Handshake(a int) bool {
	p := w.P[a]
	w.Put(p.Idx, p.Cfg.Peer, p.Query(), true, -1, -1, "query")
	w.Drain(100000)
	return p.post().Enc && w.P[p.Cfg.Peer].post().Enc
}

func polFor(version int) int {
	switch version {
	case 2:
		return PolV2
	case 3:
		return PolV3
	}
	return PolV2 | PolV3
}

// textAlphabet draws the character class of a user text: mostly plain, sometimes a text that
// itself looks like protocol (query, error, encoded message) or ends in blanks.
func textAlphabet(r *PRNG) int {
	if r.Chance(1, 5) {
		return 2 + r.Intn(4)
	}
	return r.Intn(2)
}
