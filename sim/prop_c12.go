package sim

import (
	"bytes"
	"fmt"
	"io"
	"math/big"

	"verifsim/refotr"
)

// C12 – deviant SMP messages never produce success, a crash or a stuck state machine.
// World: victim (real) <-> Mallory (reference implementation, authenticated,
// encrypted). Mallory's secret always differs from the victim's, so any
// success event on the victim is a violation by construction.

func init() {
	Register(&PropDef{
		ID: "C12", Title: "deviant SMP input: no success, no crash, recoverable",
		Config: c12Config, Run: c12Run, MaxSteps: 40, OwnsCrash: true,
		Rule: "runs = victim and lying peer in one session; the peer plays SMP 1/1Q/2/3/4/abort honestly-but-with-another-secret, with any MPI replaced by 0,1,2,p-1,p,p+1,q,q-1,q+1,random (proofs left stale), with any of its exponents forced to 0,1,q,q-1,q+1 (proofs recomputed, so degenerate group elements get past the proof checks when algebra allows), with wrong/huge MPI counts, truncated payloads, missing question terminator, out of sequence, duplicated, interleaved with aborts; the victim's user calls start/answer/abort in every state; afterwards an honest SMP run with equal secrets must succeed; " +
			"non-trivial = at least 2 deviant messages were processed by the victim; distinct = distinct (version, step sequence) signatures; the (message, field, value-class) table is reported as probes",
		Assume: []string{"the lying peer is refotr with all SMP exponents exported; its secret differs from the victim's in every deviant phase"},
	})
}

func c12Config(rc *RunCtx) {
	r := rc.Rng
	rc.Cfg["version"] = []int{2, 3, 3, 2}[r.Intn(4)]
	pol := polFor(rc.Cfg["version"])
	rc.Parties = []PartyCfg{{KeyIdx: 0, Pol: pol, Peer: 1, ErrHandler: r.Bool()}, {KeyIdx: 2, Pol: pol, Peer: 0, Ref: true}}
	// how the final honest run is set up: 0 the peer aborts, the victim's user starts; 1 nobody aborts,
	// the victim's user starts in whatever state the machine is in (the library has to abort for itself);
	// 2 the peer aborts and then starts the run itself, the victim's user answers
	rc.Cfg["recover"] = r.Intn(3)
	// a quarter of the runs: Mallory is an insider - she knows the secret, so an honest run would
	// succeed; what she sends deviates all the same (surplus elements, exponents outside [1,q)).
	// A run that contained such a message must not end in success either.
	rc.Cfg["insider"] = r.Intn(4) / 3
}

// injRand serves a chosen value for the k-th multi-byte read, the base reader otherwise.
type injRand struct {
	base io.Reader
	k    int
	val  *big.Int
	n    int
}

func (j *injRand) Read(b []byte) (int, error) {
	if len(b) <= 1 {
		return j.base.Read(b)
	}
	idx := j.n
	j.n++
	if idx == j.k {
		for i := range b {
			b[i] = 0
		}
		v := j.val.Bytes()
		if len(v) <= len(b) {
			copy(b[len(b)-len(v):], v)
		}
		return len(b), nil
	}
	return j.base.Read(b)
}

var c12ValNames = []string{"0", "1", "2", "p-1", "p", "p+1", "q", "q-1", "q+1", "random", "value+1", "p-2"}

func c12Value(class int, orig *big.Int, arg int) *big.Int {
	one := big.NewInt(1)
	switch class % len(c12ValNames) {
	case 0:
		return big.NewInt(0)
	case 1:
		return big.NewInt(1)
	case 2:
		return big.NewInt(2)
	case 3:
		return new(big.Int).Sub(refotr.P, one)
	case 4:
		return new(big.Int).Set(refotr.P)
	case 5:
		return new(big.Int).Add(refotr.P, one)
	case 6:
		return new(big.Int).Set(refotr.Q)
	case 7:
		return new(big.Int).Sub(refotr.Q, one)
	case 8:
		return new(big.Int).Add(refotr.Q, one)
	case 9:
		return new(big.Int).SetBytes(Fork(uint64(arg), "c12", 0).Bytes(192))
	case 10:
		if orig != nil {
			return new(big.Int).Add(orig, one)
		}
		return big.NewInt(3)
	default:
		return new(big.Int).Sub(refotr.P, big.NewInt(2))
	}
}

// mpisOf / withMPIs: generic access to the MPI list of an SMP TLV value.
func mpisOf(v []byte) (prefix []byte, mpis []*big.Int, ok bool) {
	rd := &refotr.Reader{B: v}
	n := rd.Int()
	if rd.Err != nil || n > 64 {
		return nil, nil, false
	}
	for i := uint32(0); i < n; i++ {
		m := rd.MPILoose()
		if rd.Err != nil {
			return nil, nil, false
		}
		mpis = append(mpis, m)
	}
	return nil, mpis, true
}

func smpValue(mpis []*big.Int) []byte {
	b := refotr.PutInt(nil, uint32(len(mpis)))
	for _, m := range mpis {
		b = refotr.PutMPI(b, m)
	}
	return b
}

func c12Run(rc *RunCtx) *Violation {
	w := rc.NewWorld(rc.Parties)
	v, m := w.P[0], w.P[1]
	m.RefAuto = false
	m.Ref.SMP.Careless = true // Mallory does not verify what the victim sends
	if !w.Handshake(0) {
		return rc.Viol("setup.handshake", "AKE with the reference peer did not complete", nil)
	}
	secretV := []byte("the victim's secret")
	secretM := []byte("mallory does not know it")
	insider := rc.Cfg["insider"] == 1
	if insider {
		secretM = secretV
	}
	tainted := "" // insider mode: the deviant message delivered in the run that is going on
	var viol *Violation
	deviantsProcessed := 0
	askV := false
	w.Observers = append(w.Observers, func(p *Party, r *CallResult) {
		if p != v || viol != nil {
			return
		}
		if r.Panic != "" {
			viol = rc.Viol("panic", fmt.Sprintf("victim's %s panicked: %s\n%s", r.Kind, r.Panic, r.Stack), map[string]string{"call": r.Kind, "panic": stripDigits(firstLine(r.Panic))})
			return
		}
		if r.HasEvent("smp", "AskForSecret") || r.HasEvent("smp", "AskForAnswer") {
			askV = true
		}
		if r.Kind == "smpanswer" || r.HasEvent("smp", "Abort") || r.HasEvent("smp", "Cheated") || r.HasEvent("smp", "Error") {
			askV = false
		}
		if insider {
			if r.HasEvent("smp", "Success") && tainted != "" {
				viol = rc.Viol("deviant.success", fmt.Sprintf("the victim reports SMP success for a run that contained a deviant message (%s); the peer knew the secret, but the message was not an honest one", tainted), map[string]string{"kind": firstWord(tainted), "version": fmt.Sprint(rc.Cfg["version"])})
			}
			if r.HasEvent("smp", "Success") || r.HasEvent("smp", "Failure") || r.HasEvent("smp", "Abort") || r.HasEvent("smp", "Cheated") || r.HasEvent("smp", "Error") {
				tainted = ""
			}
			return
		}
		if r.HasEvent("smp", "Success") {
			last := "?"
			if x := w.CurWire; x != nil {
				last = x.Note
			}
			viol = rc.Viol("false.success", fmt.Sprintf("the victim reports SMP success although the peer does not know the secret (last peer message: %s)", last), map[string]string{"after": lastDev(w), "version": fmt.Sprint(rc.Cfg["version"])})
		}
	})
	inboxSeen := len(m.Ref.Inbox)
	var pending []refotr.TLV // SMP TLVs from the victim not yet answered by Mallory
	var lastSent *refotr.TLV
	collect := func() {
		for ; inboxSeen < len(m.Ref.Inbox); inboxSeen++ {
			for _, t := range m.Ref.Inbox[inboxSeen].TLVs {
				if t.Type >= refotr.TLVSMP1 && t.Type <= refotr.TLVSMP1Q {
					pending = append(pending, t)
				}
			}
		}
	}
	sendTLV := func(t refotr.TLV, note string) {
		if !m.Ref.Encrypted {
			return
		}
		msg, err := m.Ref.SendTLV(t)
		if err != nil {
			return
		}
		y := w.Put(1, 0, msg, false, -1, -1, note)
		y.Class = note
		tt := t
		lastSent = &tt
		w.Fault("smp-deviant:" + firstWord(note))
	}
	// next builds Mallory's next protocol message (honestly, from rnd) and reports its kind.
	next := func(rnd io.Reader, withQ bool) (tlv *refotr.TLV, kind string) {
		defer func() {
			if x := recover(); x != nil {
				// Mallory's own careless engine tripped over a degenerate value (e.g. no inverse of 0)
				tlv, kind = nil, ""
				m.Ref.SMP.Reset()
				rc.Probe("mallory_engine_gave_up")
			}
		}()
		collect()
		st := &m.Ref.SMP
		if len(pending) > 0 {
			t := pending[0]
			pending = pending[1:]
			switch t.Type {
			case refotr.TLVSMP1, refotr.TLVSMP1Q:
				if m1, err := refotr.ParseSMP1(t); err == nil {
					st.Reset()
					if st.Recv1(m1) == nil {
						if r2, err := st.Answer(rnd, m.Ref.SMPSecretFor(secretM, false)); err == nil {
							tl := r2.TLV()
							return &tl, "smp2"
						}
					}
				}
			case refotr.TLVSMP2:
				if m2, err := refotr.ParseSMP2(t); err == nil {
					if r3, err := st.Recv2(rnd, m2); err == nil {
						tl := r3.TLV()
						return &tl, "smp3"
					}
				}
			case refotr.TLVSMP3:
				if m3, err := refotr.ParseSMP3(t); err == nil {
					if r4, _, err := st.Recv3(rnd, m3); err == nil && r4 != nil {
						tl := r4.TLV()
						return &tl, "smp4"
					}
				}
			case refotr.TLVSMPAbort:
				st.Reset()
			}
		}
		st.Reset()
		var q []byte
		if withQ {
			q = []byte("who?")
		}
		m1, err := st.Init(rnd, m.Ref.SMPSecretFor(secretM, true), q, withQ)
		if err != nil {
			return nil, ""
		}
		tl := m1.TLV()
		return &tl, "smp1"
	}
	kinds := ""
	follow := 0
	gen := func() (Step, bool) {
		r := rc.Rng
		fly := [2]int{w.InFlight(0, 1), w.InFlight(1, 0)}
		if follow > 0 {
			// drive the run forward like two live peers would, so that multi-step attacks complete
			follow--
			switch {
			case fly[1] > 0:
				return Step{K: "deliver", A: 1, B: 0}, true
			case askV:
				return Step{K: "uanswer"}, true
			case fly[0] > 0:
				return Step{K: "deliver", A: 0, B: 1}, true
			default:
				return Step{K: "dev", A: 0}, true
			}
		}
		if insider {
			switch {
			case fly[1] > 0:
				return Step{K: "deliver", A: 1, B: 0}, true
			case askV:
				return Step{K: "uanswer"}, true
			case fly[0] > 0:
				return Step{K: "deliver", A: 0, B: 1}, true
			case r.Chance(1, 8):
				return Step{K: "ustart", B: r.Intn(2)}, true
			case r.Chance(1, 3):
				return Step{K: "dev", A: 5, B: r.Intn(4), C: r.Intn(12), D: r.Intn(3)}, true
			default:
				return Step{K: "dev", A: 0, B: r.Intn(2)}, true
			}
		}
		if r.Chance(1, 5) {
			follow = 6 + r.Intn(8)
		}
		// deliverVM deliverMV honest stale inject format sequence ustart uanswer uabort fixedpoint
		wt := []int{14, 14, 3, 6, 6, 3, 3, 2, 2, 1, 2}
		if fly[0] == 0 {
			wt[0] = 0
		}
		if fly[1] == 0 {
			wt[1] = 0
		}
		if askV {
			wt[8] = 8
		}
		switch r.Pick(wt) {
		case 0:
			return Step{K: "deliver", A: 0, B: 1}, true
		case 1:
			return Step{K: "deliver", A: 1, B: 0}, true
		case 2:
			return Step{K: "dev", A: 0, B: r.Intn(2)}, true
		case 3:
			return Step{K: "dev", A: 1, B: r.Intn(12), C: r.Intn(len(c12ValNames)), D: r.Intn(1 << 16)}, true
		case 4:
			return Step{K: "dev", A: 2, B: r.Intn(8), C: []int{0, 1, 6, 7, 8, 2}[r.Intn(6)], D: r.Intn(2)}, true
		case 5:
			return Step{K: "dev", A: 3, B: r.Intn(7), D: r.Intn(1 << 16)}, true
		case 6:
			return Step{K: "dev", A: 4, B: r.Intn(6), D: r.Intn(1 << 16)}, true
		case 7:
			return Step{K: "ustart", B: r.Intn(2)}, true
		case 8:
			return Step{K: "uanswer"}, true
		case 10:
			return Step{K: "dev", A: 6, B: r.Intn(5)}, true
		default:
			return Step{K: "uabort"}, true
		}
	}
	for {
		s, ok := rc.NextStep(gen)
		if !ok {
			break
		}
		switch s.K {
		case "deliver":
			s.C = 0
			if x := w.Links[s.A%2][s.B%2]; len(x) > 0 && s.B%2 == 0 && x[0].Class != "" {
				deviantsProcessed++
			}
			w.Exec(s)
		case "ustart":
			q := ""
			if s.B%2 == 1 {
				q = "q?"
			}
			r := v.SMPStart(q, secretV)
			w.Enqueue(v, r)
		case "uanswer":
			r := v.SMPAnswer(secretV)
			w.Enqueue(v, r)
		case "uabort":
			r := v.SMPAbort()
			w.Enqueue(v, r)
		case "dev":
			if s.A == 6 {
				// proofs that are fixed points for degenerate elements: with Pb = Qb = 0 the value
				// cP = H(5, 0, 0) verifies for any D5, D6 (and likewise Pa = Qa = 0 with H(6, 0, 0))
				collect()
				if len(pending) == 0 && w.InFlight(0, 1) == 0 {
					// let the victim's user start a run, so that there is a message 1 to answer
					rs := v.SMPStart("", secretV)
					w.Enqueue(v, rs)
				}
				for w.InFlight(0, 1) > 0 {
					w.Deliver(w.Take(0, 1, 0))
				}
				if t, k := next(m.Rand, false); t != nil {
					if _, mp, ok := mpisOf(t.Value); ok {
						zero := big.NewInt(0)
						one := big.NewInt(1)
						// (multiples of p are not reduced on receipt: non-zero, yet without an inverse, and congruent to 0 in every proof)
						el := []*big.Int{zero, one, new(big.Int).Sub(refotr.P, one), refotr.P, new(big.Int).Lsh(refotr.P, 1)}[s.B%5]
						isZero := new(big.Int).Mod(el, refotr.P).Sign() == 0
						switch {
						case k == "smp2" && len(mp) == 11:
							mp[6], mp[7] = el, el
							mp[8] = refotr.SMPHash(5, new(big.Int).Exp(el, big.NewInt(2), refotr.P), new(big.Int).Exp(el, big.NewInt(2), refotr.P))
							if isZero {
								mp[8] = refotr.SMPHash(5, zero, zero)
							}
						case k == "smp3" && len(mp) == 8:
							mp[0], mp[1] = el, el
							if isZero {
								mp[2] = refotr.SMPHash(6, zero, zero)
							}
						}
						t.Value = smpValue(mp)
						rc.Probe("fixedpoint:" + k)
						sendTLV(*t, fmt.Sprintf("fixedpoint %s elements=%s", k, el.String()[:1]))
					}
				}
				kinds += "dv6"
				if viol != nil {
					return viol
				}
				continue
			}
			if s.A%6 == 5 {
				// insider deviations that leave all proofs valid: surplus elements, exponents plus a multiple of q
				if t, k := next(m.Rand, false); t != nil {
					if _, mp, ok := mpisOf(t.Value); ok && len(mp) > 0 {
						note := ""
						if s.B%2 == 0 {
							for i := 0; i <= s.D%3; i++ {
								mp = append(mp, big.NewInt(int64(1000+i)))
							}
							note = fmt.Sprintf("surplus %s +%d elements", k, 1+s.D%3)
						} else {
							i := s.C % len(mp)
							mp[i] = new(big.Int).Add(mp[i], new(big.Int).Mul(refotr.Q, big.NewInt(int64(1+s.D%3))))
							note = fmt.Sprintf("plusq %s mpi%d+%dq", k, i, 1+s.D%3)
						}
						t.Value = smpValue(mp)
						if insider {
							tainted = note
						}
						rc.Probe("insider:" + firstWord(note) + ":" + k)
						sendTLV(*t, note)
					}
				}
				kinds += "dv5"
				if viol != nil {
					return viol
				}
				continue
			}
			switch s.A % 5 {
			case 0: // honest protocol step with another secret
				if t, k := next(m.Rand, s.B%2 == 1); t != nil {
					if k == "smp1" {
						tainted = "" // a new run begins: whatever deviated belonged to the one before
					}
					sendTLV(*t, "honest-"+k)
				}
			case 1: // one MPI replaced by a boundary value, proofs stale
				if t, k := next(m.Rand, false); t != nil {
					if _, mp, ok := mpisOf(t.Value); ok && len(mp) > 0 {
						i := s.B % len(mp)
						mp[i] = c12Value(s.C, mp[i], s.D)
						t.Value = smpValue(mp)
						rc.Probe(fmt.Sprintf("stale:%s:mpi%d:%s", k, i, c12ValNames[s.C%len(c12ValNames)]))
						sendTLV(*t, fmt.Sprintf("stale %s mpi%d=%s", k, i, c12ValNames[s.C%len(c12ValNames)]))
					}
				}
			case 2: // one exponent forced, proofs recomputed for the deviant value
				val := c12Value(s.C, nil, 0)
				ir := &injRand{base: m.Rand, k: s.B % 8, val: val}
				if t, k := next(ir, s.D%2 == 1); t != nil {
					rc.Probe(fmt.Sprintf("inject:%s:exp%d:%s", k, s.B%8, c12ValNames[s.C%len(c12ValNames)]))
					sendTLV(*t, fmt.Sprintf("inject %s exp%d=%s", k, s.B%8, c12ValNames[s.C%len(c12ValNames)]))
				}
			case 3: // counts, truncation, question terminator
				if t, k := next(m.Rand, s.B%7 == 5); t != nil {
					val := cp(t.Value)
					switch s.B % 7 {
					case 0:
						if len(val) >= 4 {
							val[3]--
						}
					case 1:
						if len(val) >= 4 {
							val[3]++
						}
					case 2:
						if len(val) >= 4 {
							copy(val, []byte{0xff, 0xff, 0xff, 0xff})
						}
					case 3:
						val = val[:s.D%(len(val)+1)]
					case 4:
						val = nil
					case 5:
						val = bytes.ReplaceAll(val, []byte{0}, []byte{'x'}) // question without terminator (and more)
					case 6:
						if len(val) >= 8 {
							copy(val[4:], []byte{0x7f, 0xff, 0xff, 0xff}) // first MPI claims a huge length
						}
					}
					t.Value = val
					rc.Probe(fmt.Sprintf("format:%s:%d", k, s.B%7))
					sendTLV(*t, fmt.Sprintf("format %s variant%d", k, s.B%7))
				}
			case 4: // out of sequence, duplicates, aborts
				switch s.B % 6 {
				case 0:
					sendTLV(refotr.SMPAbortTLV(), "seq abort")
				case 1:
					if lastSent != nil {
						sendTLV(*lastSent, "seq duplicate")
					}
				default:
					// a syntactically valid message of a type the victim does not expect: random MPIs
					typ := []uint16{refotr.TLVSMP1, refotr.TLVSMP2, refotr.TLVSMP3, refotr.TLVSMP4}[s.B%4]
					n := map[uint16]int{refotr.TLVSMP1: 6, refotr.TLVSMP2: 11, refotr.TLVSMP3: 8, refotr.TLVSMP4: 3}[typ]
					var mp []*big.Int
					pr := Fork(uint64(s.D), "c12seq", 0)
					for i := 0; i < n; i++ {
						mp = append(mp, new(big.Int).Mod(new(big.Int).SetBytes(pr.Bytes(192)), refotr.P))
					}
					sendTLV(refotr.TLV{Type: typ, Value: smpValue(mp)}, fmt.Sprintf("seq unexpected type %d", typ))
				}
			}
		}
		kinds += s.K[:2] + fmt.Sprint(s.A%5)
		if viol != nil {
			return viol
		}
	}
	w.Drain(2000)
	if viol != nil {
		return viol
	}
	// recovery: an honest run with equal secrets must succeed
	if !v.Conv.IsEncrypted() || !m.Ref.Encrypted {
		return rc.Viol("session.lost", "deviant SMP traffic ended the encrypted session", nil)
	}
	collect()
	pending = nil
	m.Ref.SMP.Careless = false
	m.Ref.SMP.Reset()
	variant := rc.Cfg["recover"] % 3
	if variant != 1 {
		sendTLV(refotr.SMPAbortTLV(), "recovery abort")
		w.Links[1][0][len(w.Links[1][0])-1].Class = ""
		w.Drain(2000)
	}
	m.RefAuto, m.RefSecret = true, secretV
	collect()
	m.SMPResult = nil
	success := false
	w.Observers = append(w.Observers, func(p *Party, r *CallResult) {
		if p == v && r.HasEvent("smp", "Success") {
			success = true
		}
	})
	secretM = secretV
	saved := viol
	var r *CallResult
	if variant == 2 {
		askV = false
		r = m.SMPStart("", secretV)
		w.Enqueue(m, r)
		w.Drain(2000)
		if askV {
			r = v.SMPAnswer(secretV)
			w.Enqueue(v, r)
			w.Drain(2000)
		}
	} else {
		r = v.SMPStart("", secretV)
		w.Enqueue(v, r)
		w.Drain(2000)
	}
	viol = saved
	mOK := false
	for _, x := range m.SMPResult {
		if x == refotr.SMPSucceeded {
			mOK = true
		}
	}
	if !success || !mOK {
		return rc.Viol("no.recovery", fmt.Sprintf("after the deviant traffic a fresh SMP run with equal secrets does not succeed (victim success=%v, peer success=%v, start err=%q)", success, mOK, r.Err),
			map[string]string{"victim": fmt.Sprint(success), "peer": fmt.Sprint(mOK), "recover": fmt.Sprint(variant)})
	}
	rc.Stats.Nontrivial = deviantsProcessed >= 2
	rc.Stats.Sig = fmt.Sprintf("v%d %s", rc.Cfg["version"], kinds)
	rc.ProbeN("deviant_messages_processed", deviantsProcessed)
	return nil
}

func firstWord(s string) string {
	for i := 0; i < len(s); i++ {
		if s[i] == ' ' {
			return s[:i]
		}
	}
	return s
}

// lastDev names the class of the last deviant message delivered.
func lastDev(w *World) string {
	for i := len(w.Arch) - 1; i >= 0; i-- {
		if x := w.Arch[i]; x.Class != "" && x.Delivered > 0 {
			return firstWord(x.Class)
		}
	}
	return "none"
}
