package sim

import (
	"bytes"
	"fmt"

	"verifsim/refotr"
)

// c10RefRun: the reverse direction of C10. Party A is a real Conversation,
// party B is the reference implementation acting as a live peer. Messages
// built by the reference must be accepted and read correctly by otr3, and the
// reference must read everything otr3 sends.
func c10RefRun(rc *RunCtx) *Violation {
	cfgs := append([]PartyCfg{}, rc.Parties...)
	cfgs[1].Ref = true
	if cfgs[1].Frag > 0 {
		cfgs[1].RefFrag = []int{50, 200, 1, 7}[cfgs[1].Frag%4]
		cfgs[1].Frag = 0
	}
	w := rc.NewWorld(cfgs)
	o := NewOmni(w)
	o.Off[1] = true
	a, b := w.P[0], w.P[1]
	askA := false
	var keysA [][]byte // extra keys handed to A's application
	w.Observers = append(w.Observers, func(p *Party, r *CallResult) {
		if p.Idx != 0 {
			return
		}
		if r.HasEvent("smp", "AskForSecret") || r.HasEvent("smp", "AskForAnswer") {
			askA = true
		}
		if r.Kind == "smpanswer" || r.HasEvent("smp", "Abort") {
			askA = false
		}
		for _, e := range r.Events {
			if e.Kind == "key" {
				keysA = append(keysA, e.Data)
			}
		}
	})
	var sentB [][]byte
	var wantKeysA [][]byte
	smpExpect := []bool{} // expected outcome (true = success) per completed SMP run
	kinds := ""
	started := false
	curSecretA, curSecretB := 0, 0
	gen := func() (Step, bool) {
		r := rc.Rng
		enc := a.Conv.IsEncrypted() && b.Ref.Encrypted
		fly := [2]int{w.InFlight(0, 1), w.InFlight(1, 0)}
		if !started {
			started = true
			if rc.Cfg["wsstart"] == 1 {
				// the other implementation offers OTR with a whitespace tag of its own making
				return Step{K: "fwstag", A: r.Intn(6)}, true
			}
			return Step{K: "query", A: rc.Cfg["starter"]}, true
		}
		// query sendA sendB delAB delBA tick endA smpstartA smpstartB smpanswerA xkeyA xkeyB endB
		wt := []int{0, 8, 8, 16, 16, 2, 0, 0, 0, 0, 0, 0, 0}
		if fly[0] == 0 {
			wt[3] = 0
		}
		if fly[1] == 0 {
			wt[4] = 0
		}
		if fly[0]+fly[1] == 0 && !enc {
			wt[0] = 10
		}
		if enc {
			wt[6], wt[7], wt[8], wt[10], wt[11], wt[12] = 1, 2, 2, 2, 2, 1
			if askA {
				wt[9] = 8
			}
		}
		switch r.Pick(wt) {
		case 0:
			return Step{K: "query", A: r.Intn(2)}, true
		case 1:
			return Step{K: "send", A: 0, B: 1 + r.Intn(5), C: rc.Cfg["alphabet"]}, true
		case 2:
			return Step{K: "send", A: 1, B: 1 + r.Intn(5), C: rc.Cfg["alphabet"]}, true
		case 3:
			return Step{K: "deliver", A: 0, B: 1}, true
		case 4:
			return Step{K: "deliver", A: 1, B: 0}, true
		case 5:
			return Step{K: "tick", A: r.Intn(len(tickDur))}, true
		case 6:
			return Step{K: "end", A: 0}, true
		case 7:
			return Step{K: "smpstart", A: 0, B: r.Intn(2), C: r.Intn(2)}, true
		case 8:
			return Step{K: "smpstart", A: 1, B: r.Intn(2), C: r.Intn(2)}, true
		case 9:
			return Step{K: "smpanswer", A: 0, C: r.Intn(2)}, true
		case 10:
			return Step{K: "extrakey", A: 0, B: r.Intn(1000), C: r.Intn(3)}, true
		case 11:
			return Step{K: "refxkey", A: 1, B: r.Intn(1000)}, true
		default:
			return Step{K: "end", A: 1}, true
		}
	}
	fail := func(rule, detail string, shape map[string]string) *Violation {
		return rc.Viol(rule, detail, shape)
	}
	for {
		s, ok := rc.NextStep(gen)
		if !ok {
			break
		}
		if s.K == "deliver" {
			s.C = 0
		}
		if s.K == "query" && w.TotalInFlight() > 0 {
			continue
		}
		var res *CallResult
		switch s.K {
		case "fwstag":
			// base tag followed by version tags in the order another client may choose, including
			// the version 1 tag this library does not implement; exactly the tag is to be removed and
			// the exchange started in the version the two have in common
			vx := refotr.WhitespaceV3
			if b.Ref.Version == 2 {
				vx = refotr.WhitespaceV2
			}
			tags := [][]string{{vx}, {refotr.WhitespaceV1, vx}, {vx, refotr.WhitespaceV1}, {refotr.WhitespaceV1, vx, refotr.WhitespaceV1}, {vx, vx}, {refotr.WhitespaceV1, refotr.WhitespaceV1, vx}}[s.A%6]
			txt := w.GenText(b, 2, 0)
			msg := append(cp(txt), []byte(refotr.WhitespaceBase)...)
			for _, t := range tags {
				msg = append(msg, []byte(t)...)
			}
			sentB = append(sentB, txt)
			x := w.Put(1, 0, msg, true, -1, -1, "foreign-whitespace-tag")
			res = w.Deliver(w.Take(1, 0, 0))
			_ = x
			if !bytes.Equal(res.Plain, txt) {
				return fail("wstag.text", fmt.Sprintf("A returned %s for a whitespace-tagged message of another implementation whose text is %s (tag variant %d)", short(res.Plain), short(txt), s.A%6), nil)
			}
			if !hasAKEOut(res) {
				return fail("wstag.no-start", fmt.Sprintf("A (whitespace-start policy, version %d allowed) did not start the key exchange on another implementation's whitespace tag (variant %d), err=%q", b.Ref.Version, s.A%6, res.Err), nil)
			}
			w.Fault("foreign-whitespace-tag")
		case "send":
			if s.A%2 == 1 {
				if !b.Ref.Encrypted {
					continue
				}
				txt := w.GenText(b, s.B, s.C)
				res = b.Send(txt)
				w.Enqueue(b, res)
				sentB = append(sentB, txt)
			} else {
				res, _ = w.Exec(s)
			}
		case "smpstart":
			if s.A%2 == 0 {
				curSecretA = s.C % 2
				b.RefSecret = SecretByID(curSecretB)
			} else {
				curSecretB = s.C % 2
			}
			res, _ = w.Exec(s)
		case "smpanswer":
			curSecretA = s.C % 2
			res, _ = w.Exec(s)
		case "refxkey":
			if !b.Ref.Encrypted {
				continue
			}
			val := refotr.PutInt(nil, uint32(s.B))
			val = append(val, []byte("usage")...)
			k := b.Ref.ExtraKey()
			res = b.call("refxkey", val, func(r *CallResult) {
				m, err := b.Ref.Send(nil, []refotr.TLV{{Type: refotr.TLVExtraKey, Value: val}}, refotr.FlagIgnoreUnreadable)
				if err == nil {
					r.Out = b.refOut([][]byte{m})
				}
				r.Err = errStr(err)
			})
			w.Enqueue(b, res)
			wantKeysA = append(wantKeysA, k)
		default:
			res, _ = w.Exec(s)
		}
		kinds += s.K[:2] + fmt.Sprint(s.A%2)
		if res != nil {
			if res.Panic != "" {
				rc.Probe("incidental_panics")
			}
			if res.Party == 1 && res.Kind == "recv" && res.Err != "" && (refotr.IsArmored(res.In) || refotr.IsFragment(res.In)) {
				// The reference could not accept something the real party sent. A data
				// message that crossed the peer's End on the wire is legitimately unreadable.
				if res.Err != "" && !bytes.Contains([]byte(res.Err), []byte("not-encrypted")) && !bytes.Contains([]byte(res.Err), []byte("ignored")) {
					return fail("ref.rejects", fmt.Sprintf("the reference implementation rejects a message emitted by otr3: %s (%s)", res.Err, short(res.In)), map[string]string{"err": stripDigits(res.Err)})
				}
			}
			if res.Party == 0 && res.Kind == "recv" && res.Err != "" && res.Err != "otr: message not in private" {
				return fail("real.rejects", fmt.Sprintf("otr3 rejects a message built by the reference implementation: %s (%s)", res.Err, short(res.In)), map[string]string{"err": res.Err})
			}
		}
		if v := divViolation(rc, o); v != nil {
			return v
		}
	}
	w.Drain(100000)
	if v := divViolation(rc, o); v != nil {
		return v
	}
	// texts: what the reference sent while both were encrypted must arrive exactly, in order,
	// except messages that crossed an End (not generated here: sends only when encrypted, but A may have ended) -> subsequence check
	if !isSubsequence(w.Got[0], sentB) {
		return fail("real.reads", "texts returned by otr3 are not an in-order subsequence of the texts the reference sent", nil)
	}
	if !isSubsequence(w.Got[1], nonEmpty(a.SentText)) {
		return fail("ref.reads", "texts read by the reference are not an in-order subsequence of the texts otr3 was given", nil)
	}
	for i, k := range keysA {
		if i < len(wantKeysA) && !bytes.Equal(k, wantKeysA[i]) {
			// keys line up only if no refxkey message was lost; messages are never lost here unless a session ended
			found := false
			for _, wk := range wantKeysA {
				found = found || bytes.Equal(k, wk)
			}
			if !found {
				return fail("extra-key", "extra symmetric key received by otr3's application is not one the reference computed", nil)
			}
		}
	}
	_, _ = smpExpect, curSecretA
	akes, datas := 0, 0
	for _, m := range o.Msgs {
		if isAKE(m.Parsed) {
			akes++
		} else if m.OK {
			datas++
		}
	}
	rc.Stats.Nontrivial = akes >= 2 && datas >= 3 && len(w.Got[0]) >= 2
	rc.Stats.Sig = fmt.Sprintf("ref v%d f%d/%d %s", rc.Cfg["version"], cfgs[0].Frag, cfgs[1].RefFrag, kinds)
	rc.ProbeN("ref_texts_read_by_otr3", len(w.Got[0]))
	rc.ProbeN("otr3_texts_read_by_ref", len(w.Got[1]))
	rc.ProbeN("ref_extra_keys_received", len(keysA))
	rc.Probe("ref_peer_runs")
	return nil
}

func isSubsequence(got, sent [][]byte) bool {
	j := 0
	for _, g := range got {
		for j < len(sent) && !bytes.Equal(sent[j], g) {
			j++
		}
		if j == len(sent) {
			return false
		}
		j++
	}
	return true
}
