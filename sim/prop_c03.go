package sim

import (
	"bytes"
	"encoding/base64"
	"fmt"

	"verifsim/refotr"
)

// C03 – user text never reaches the wire in readable form when encryption is due.
// A wire monitor inspects every ValidMessage returned by any API call.

func init() {
	Register(&PropDef{
		ID: "C03", Title: "no readable user text on the wire when encryption is due",
		Config: c03Config, Run: c03Run, MaxSteps: 90,
		Rule: "runs = PRNG-generated lifecycle histories (plaintext, AKE in progress, encrypted, peer End -> finished, own End, re-AKE, error messages, peer crash/restart, SMP, extra key, fragment sizes, user texts that themselves look like OTR queries/errors/encoded messages, in a third of the runs single failures of the randomness source at PRNG-chosen reads) under PRNG-chosen policy sets for both parties (all 64 combinations appear in a batch); every output of every API call is searched (raw, base64-decoded, reassembled across fragments) for every text the party was ever given; " +
			"non-trivial = a party passed through at least 2 of the states plaintext/encrypted/finished/queued and emitted at least 5 messages; distinct = distinct (policies, step sequence) signatures",
		Assume: []string{"texts are >= 12 bytes of unique printable payload, so a substring hit is never accidental",
			"'decipherable only with the session's DH secrets' is checked as: ciphertext decrypts to the text under the key the reference derives from the two parties' drawn exponents, and not under the all-zero key, the MAC key, or a key of the previous session"},
	})
}

func c03Config(rc *RunCtx) {
	r := rc.Rng
	vs := []int{PolV3, PolV2, PolV2 | PolV3}
	pa, pb := vs[r.Intn(3)], vs[r.Intn(3)]
	if pa&pb == 0 {
		pb = pa
	}
	// every combination of the four other policy bits
	pa |= r.Intn(16) << 2
	pb |= r.Intn(16) << 2
	rc.Cfg["polA"], rc.Cfg["polB"] = pa, pb
	fa, fb := 0, 0
	if r.Chance(1, 3) {
		fa = []int{60, 100, 200, 1000}[r.Intn(4)]
	}
	if r.Chance(1, 3) {
		fb = []int{60, 100, 200, 1000}[r.Intn(4)]
	}
	rc.Parties = []PartyCfg{
		{KeyIdx: 0, Pol: pa, Peer: 1, Frag: fa, ErrHandler: r.Bool()},
		{KeyIdx: 1, Pol: pb, Peer: 0, Frag: fb, ErrHandler: r.Bool()},
	}
	rc.Cfg["randfault"] = r.Intn(3) / 2 // a third of the runs: reads of the randomness source fail at PRNG-chosen moments
}

// readable reports whether text occurs in a complete wire message, raw or inside its base64 body.
func readable(msg, text []byte) string {
	if bytes.Contains(msg, text) {
		return "raw"
	}
	if bytes.HasPrefix(msg, []byte("?OTR:")) {
		body := msg[5:]
		if n := bytes.IndexByte(body, '.'); n >= 0 {
			body = body[:n]
		}
		dec := make([]byte, base64.StdEncoding.DecodedLen(len(body)))
		n, _ := base64.StdEncoding.Decode(dec, body)
		if bytes.Contains(dec[:n], text) {
			return "base64"
		}
		// tolerate a damaged tail: decode the longest 4-aligned prefix
		body = body[:len(body)/4*4]
		n, _ = base64.StdEncoding.Decode(dec, body)
		if bytes.Contains(dec[:n], text) {
			return "base64"
		}
	}
	return ""
}

func c03Run(rc *RunCtx) *Violation {
	w := rc.NewWorld(rc.Parties)
	o := NewOmni(w)
	var viol *Violation
	pre := [2]string{"plaintext", "plaintext"} // lifecycle state before the current call
	seenStates := [2]map[string]bool{{}, {}}
	emitted := 0
	ask := [2]bool{}
	prevKeys := [2][][]byte{} // sending AES keys of earlier sessions
	prevSess := [2]int{-1, -1}
	keystreams := [2]map[string]int{{}, {}}
	curKey := [2][]byte{}
	w.Observers = append(w.Observers, func(p *Party, r *CallResult) {
		i := p.Idx
		defer func() {
			// lifecycle tracking from observable events only
			switch {
			case r.Post.Enc:
				pre[i] = "encrypted"
			case r.HasEvent("sec", "GoneInsecure") && r.Kind == "recv":
				pre[i] = "finished"
			case r.Kind == "end":
				pre[i] = "plaintext"
			case pre[i] == "encrypted" && !r.Post.Enc:
				// Neither End nor the peer's disconnect: the user was told "secure" and has been told
				// nothing else since. Whatever the library now reports about itself, encryption is
				// still due for what the user types (a conversation that silently falls back to
				// plain text, e.g. after a failure of the randomness source, leaks the next Send).
				rc.Probe("left_encrypted_without_end_or_disconnect")
			}
			seenStates[i][pre[i]] = true
		}()
		if r.HasEvent("smp", "AskForSecret") || r.HasEvent("smp", "AskForAnswer") {
			ask[i] = true
		}
		if r.Kind == "smpanswer" {
			ask[i] = false
		}
		if viol != nil || r.Panic != "" {
			return
		}
		reqenc := p.Cfg.Pol&PolReqEnc != 0
		state := pre[i]
		due := state == "encrypted" || state == "finished" || reqenc
		outs, err := reassembleOutputs(r.Out)
		if err != nil {
			return
		}
		emitted += len(outs)
		cur := -1
		if r.Kind == "send" {
			cur = len(p.SentText) - 1
		}
		for _, om := range outs {
			for ti, t := range p.SentText {
				if len(t) < 12 {
					continue
				}
				how := readable(om.raw, t)
				if how == "" {
					for _, f := range om.frags {
						if bytes.Contains(f, t) {
							how = "raw-fragment"
						}
					}
				}
				if how == "" {
					continue
				}
				legit := ti == cur && !due
				if !legit {
					viol = rc.Viol("leak", fmt.Sprintf("%s.%s (state before the call: %s, require-encryption=%v) returned a message in which the text of Send number %d is readable (%s): %s",
						p.Name, r.Kind, state, reqenc, ti, how, short(om.raw)), map[string]string{"state": state, "reqenc": fmt.Sprint(reqenc), "call": r.Kind, "how": how})
					return
				}
			}
		}
		if r.Kind == "send" {
			if state == "finished" && (len(r.Out) != 0 || r.Err == "") {
				viol = rc.Viol("finished.send", fmt.Sprintf("%s.Send in finished state returned %d message(s), err=%q; it must refuse and emit nothing", p.Name, len(r.Out), r.Err), nil)
				return
			}
			if state == "plaintext" && reqenc {
				for _, om := range outs {
					if _, ok := refotr.ParseQuery(om.raw); !ok || refotr.IsArmored(om.raw) {
						viol = rc.Viol("reqenc.send", fmt.Sprintf("%s.Send under require-encryption while not encrypted emitted something other than a query: %s", p.Name, short(om.raw)), nil)
						return
					}
				}
				seenStates[i]["queued"] = true
			}
		}
		// wrong-key probes on data messages that carry a text
		for _, mi := range o.Msgs {
			if mi.Call != r.Seq || mi.From != i || mi.Data == nil || !mi.OK || len(mi.Text) < 12 {
				continue
			}
			rc.Probe("texts_seen_inside_ciphertext")
			tries := [][]byte{make([]byte, 16), mi.Keys.SendMAC[:16], mi.Keys.RecvAES}
			if mi.Sess != prevSess[i] {
				if curKey[i] != nil && len(prevKeys[i]) < 4 {
					prevKeys[i] = append(prevKeys[i], curKey[i])
				}
				prevSess[i] = mi.Sess
			}
			curKey[i] = mi.Keys.SendAES
			tries = append(tries, prevKeys[i]...)
			for _, k := range tries {
				if bytes.Contains(refotr.AESCTR(k, mi.Data.Ctr, mi.Data.Enc), mi.Text) {
					viol = rc.Viol("weak-key", fmt.Sprintf("%s: ciphertext of a data message decrypts to the text under a key that is not the pair's sending AES key", p.Name), nil)
					return
				}
			}
			// the same AES key with the same counter twice is a two-time pad: the texts are
			// recoverable from the wire without any key
			ks := fmt.Sprintf("%x/%d", mi.Keys.SendAES, mi.Ctr)
			if prevCall, dup := keystreams[i][ks]; dup && prevCall != mi.Call {
				viol = rc.Viol("keystream.reuse", fmt.Sprintf("%s encrypted two data messages (calls #%d and #%d) with the same AES key and the same counter %d", p.Name, prevCall, mi.Call, mi.Ctr), nil)
				return
			}
			keystreams[i][ks] = mi.Call
			if bytes.Contains(mi.Data.Enc, mi.Text) {
				viol = rc.Viol("leak", fmt.Sprintf("%s: 'ciphertext' contains the text verbatim", p.Name), map[string]string{"how": "ciphertext"})
				return
			}
		}
	})
	kinds := ""
	gen := func() (Step, bool) {
		r := rc.Rng
		encA, encB := w.P[0].Conv.IsEncrypted(), w.P[1].Conv.IsEncrypted()
		fly := [2]int{w.InFlight(0, 1), w.InFlight(1, 0)}
		// query sendA sendB delAB delBA tick end smpstart smpanswer extrakey setfrag drop crash errinj randfault
		wt := []int{2, 10, 10, 16, 16, 2, 2, 0, 0, 0, 1, 1, 1, 1, 0}
		if rc.Cfg["randfault"] == 1 {
			wt[14] = 3
		}
		if fly[0] == 0 {
			wt[3] = 0
		}
		if fly[1] == 0 {
			wt[4] = 0
		}
		if fly[0]+fly[1] == 0 {
			wt[11] = 0
			if !encA && !encB {
				wt[0] = 8
			}
		}
		if encA && encB {
			wt[7], wt[9] = 2, 2
		}
		if ask[0] || ask[1] {
			wt[8] = 6
		}
		switch r.Pick(wt) {
		case 0:
			return Step{K: "query", A: r.Intn(2)}, true
		case 1:
			return Step{K: "send", A: 0, B: 2 + r.Intn(4), C: textAlphabet(r)}, true
		case 2:
			return Step{K: "send", A: 1, B: 2 + r.Intn(4), C: textAlphabet(r)}, true
		case 3:
			return Step{K: "deliver", A: 0, B: 1}, true
		case 4:
			return Step{K: "deliver", A: 1, B: 0}, true
		case 5:
			return Step{K: "tick", A: r.Intn(len(tickDur))}, true
		case 6:
			return Step{K: "end", A: r.Intn(2)}, true
		case 7:
			return Step{K: "smpstart", A: r.Intn(2), B: r.Intn(2), C: 0}, true
		case 8:
			who := 0
			if ask[1] && (!ask[0] || r.Bool()) {
				who = 1
			}
			return Step{K: "smpanswer", A: who, C: r.Intn(2)}, true
		case 9:
			return Step{K: "extrakey", A: r.Intn(2), B: r.Intn(100), C: r.Intn(3)}, true
		case 10:
			return Step{K: "setfrag", A: r.Intn(2), B: r.Intn(8)}, true
		case 11:
			a := r.Intn(2)
			if fly[a] == 0 {
				a = 1 - a
			}
			return Step{K: "drop", A: a, B: 1 - a}, true
		case 12:
			return Step{K: "crash", A: r.Intn(2), B: r.Intn(2)}, true
		case 14:
			return Step{K: "randfault", A: r.Intn(2), B: r.Intn(4), C: r.Intn(4)}, true
		default:
			return Step{K: "errinj", A: r.Intn(2)}, true
		}
	}
	for {
		s, ok := rc.NextStep(gen)
		if !ok {
			break
		}
		switch s.K {
		case "deliver", "drop":
			s.C = 0
			w.Exec(s)
		case "crash":
			i := s.A % 2
			w.Crash(i, s.B%2 == 1)
			pre[i] = "plaintext"
			w.P[i].SentText = nil // the restarted process knows nothing of earlier texts
		case "randfault":
			// one of the next multi-byte reads of this party's randomness source fails (once)
			q := w.P[s.A%2]
			q.Rand.FailAt, q.Rand.Mode = q.Rand.reads+s.B%4, 1+s.C%4
			w.Fault("rand-read-fails")
		case "errinj":
			to := s.A % 2
			w.Put(1-to, to, []byte("?OTR Error: injected"), false, -1, -1, "error-injection")
		default:
			w.Exec(s)
		}
		kinds += s.K[:2] + fmt.Sprint(s.A%2)
		if viol != nil {
			return viol
		}
	}
	w.Drain(3000)
	if viol != nil {
		return viol
	}
	n := len(seenStates[0])
	if len(seenStates[1]) > n {
		n = len(seenStates[1])
	}
	rc.Stats.Nontrivial = n >= 2 && emitted >= 5
	rc.Stats.Sig = fmt.Sprintf("p%d/%d f%d/%d %s", rc.Cfg["polA"], rc.Cfg["polB"], rc.Parties[0].Frag, rc.Parties[1].Frag, kinds)
	for i := 0; i < 2; i++ {
		for _, st := range []string{"plaintext", "encrypted", "finished", "queued"} {
			if seenStates[i][st] {
				rc.Probe("state_" + st)
			}
		}
	}
	rc.ProbeN("messages_inspected", emitted)
	return nil
}
