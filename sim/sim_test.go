package sim

import "testing"

// TestSim is the single entry point of the simulator binary; the role
// (runner, worker, replay, digest) is selected by VERIF_ROLE.
func TestSim(t *testing.T) { Main(t) }
