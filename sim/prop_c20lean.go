package sim

import (
	"fmt"
	"hash"
	"hash/fnv"
	"sync"

	otr3 "github.com/coyim/otr3"
)

// C20, third execution mode ("hammer"): many goroutines, each owning a pair of
// bare Conversations (no Party wrapper, no logging, no formatting: nothing in
// the harness that the race detector could take for synchronisation), all
// running the same life cycle at the same moment - clear-text sends with
// whitespace tags under differing version policies, query and AKE, data
// messages with rotations, fragmentation, SMP, End, restart. Everything a
// conversation returns is folded into a per-goroutine hash that must equal the
// hash of the same script run alone.

type leanHandlers struct{ l *leanPair }

func (h leanHandlers) HandleSMPEvent(ev otr3.SMPEvent, progress int, question string) {
	h.l.mix([]byte{1, byte(ev), byte(progress)})
	h.l.mix([]byte(question))
	if ev == otr3.SMPEventAskForSecret || ev == otr3.SMPEventAskForAnswer {
		h.l.ask = true
	}
}
func (h leanHandlers) HandleMessageEvent(ev otr3.MessageEvent, msg []byte, err error, trace ...interface{}) {
	h.l.mix([]byte{2, byte(ev)})
	h.l.mix(msg)
}
func (h leanHandlers) HandleSecurityEvent(ev otr3.SecurityEvent) { h.l.mix([]byte{3, byte(ev)}) }
func (h leanHandlers) ReceivedSymmetricKey(usage uint32, usageData []byte, symkey []byte) {
	h.l.mix([]byte{4, byte(usage)})
	h.l.mix(usageData)
	h.l.mix(symkey)
}

type leanPair struct {
	seed  uint64
	rng   *PRNG
	c     [2]*otr3.Conversation
	seq   int
	h     hash.Hash64
	ask   bool
	calls int
	wsTag int // clear-text sends that carried a whitespace tag
	bad   string
}

func (l *leanPair) mix(b []byte) {
	var n [4]byte
	n[0], n[1], n[2], n[3] = byte(len(b)>>24), byte(len(b)>>16), byte(len(b)>>8), byte(len(b))
	_, _ = l.h.Write(n[:])
	_, _ = l.h.Write(b)
}

func (l *leanPair) fresh(i int, pol int, frag int) {
	c := &otr3.Conversation{}
	c.SetOurKeys([]otr3.PrivateKey{SharedKey(int(l.seed%3)*2 + i)}) // one key object per account, shared by its conversations
	h := leanHandlers{l}
	c.SetSMPEventHandler(h)
	c.SetMessageEventHandler(h)
	c.SetSecurityEventHandler(h)
	c.SetReceivedKeyHandler(h)
	if frag > 0 {
		c.SetFragmentSize(uint16(frag))
	}
	if pol&PolV2 != 0 {
		c.Policies.AllowV2()
	}
	if pol&PolV3 != 0 {
		c.Policies.AllowV3()
	}
	if pol&PolWSTag != 0 {
		c.Policies.SendWhitespaceTag()
	}
	if pol&PolWSStart != 0 {
		c.Policies.WhitespaceStartAKE()
	}
	if pol&PolErrStart != 0 {
		c.Policies.ErrorStartAKE()
	}
	r := NewSimRand(Mix(l.seed, "lean.rand", uint64(l.calls*2+i)), &l.seq)
	r.Keep = false
	c.Rand = r
	c.InitializeInstanceTag(0)
	l.c[i] = c
}

// pump delivers msgs to party `to` and everything that follows until quiet.
func (l *leanPair) pump(to int, msgs []otr3.ValidMessage) {
	type item struct {
		to int
		m  []byte
	}
	var q []item
	for _, m := range msgs {
		q = append(q, item{to, append([]byte{}, m...)})
	}
	for n := 0; len(q) > 0 && n < 400; n++ {
		it := q[0]
		q = q[1:]
		l.calls++
		plain, out, err := l.c[it.to].Receive(it.m)
		l.mix(plain)
		if err != nil {
			l.mix([]byte(err.Error()))
		}
		for _, o := range out {
			l.mix(o)
			q = append(q, item{1 - it.to, append([]byte{}, o...)})
		}
	}
}

func (l *leanPair) send(i int, text []byte) {
	l.calls++
	out, err := l.c[i].Send(text)
	if err != nil {
		l.mix([]byte(err.Error()))
	}
	if !l.c[i].IsEncrypted() && len(out) == 1 && len(out[0]) >= len(text)+16 {
		l.wsTag++
	}
	for _, o := range out {
		l.mix(o)
	}
	l.pump(1-i, out)
}

// run executes the whole script: `rounds` life cycles.
func (l *leanPair) run(rounds int) {
	defer func() {
		if x := recover(); x != nil {
			l.bad = "panic"
			l.mix([]byte("panic"))
		}
	}()
	for round := 0; round < rounds; round++ {
		r := l.rng
		ver := []int{2, 3, 23}[r.Intn(3)]
		pol := polFor(ver)
		frag := []int{0, 0, 120, 400}[r.Intn(4)]
		xa := (r.Intn(8) << 3) & (PolWSTag | PolWSStart | PolErrStart)
		xb := (r.Intn(8) << 3) & (PolWSTag | PolWSStart | PolErrStart)
		l.fresh(0, pol|xa, frag)
		l.fresh(1, pol|xb, frag)
		// clear-text phase
		for k, n := 0, 1+r.Intn(4); k < n; k++ {
			l.send(r.Intn(2), []byte("clear "+string(rune('a'+k))))
		}
		if !l.c[0].IsEncrypted() {
			who := r.Intn(2)
			l.calls++
			q := l.c[who].QueryMessage()
			l.mix(q)
			l.pump(1-who, []otr3.ValidMessage{q})
		}
		if !l.c[0].IsEncrypted() || !l.c[1].IsEncrypted() {
			continue
		}
		for k, n := 0, 4+r.Intn(12); k < n; k++ {
			l.send(r.Intn(2), r.Bytes(1+r.Intn(40)))
		}
		if r.Bool() {
			who := r.Intn(2)
			l.ask = false
			l.calls++
			var out []otr3.ValidMessage
			var err error
			if r.Bool() {
				out, err = l.c[who].StartAuthenticate("q?", []byte("secret"))
			} else {
				out, err = l.c[who].StartAuthenticate("", []byte("secret"))
			}
			if err == nil {
				for _, o := range out {
					l.mix(o)
				}
				l.pump(1-who, out)
				if l.ask {
					sec := []byte("secret")
					if r.Chance(1, 3) {
						sec = []byte("other")
					}
					l.calls++
					out, err = l.c[1-who].ProvideAuthenticationSecret(sec)
					if err == nil {
						for _, o := range out {
							l.mix(o)
						}
						l.pump(who, out)
					}
				}
			}
		}
		if r.Bool() {
			l.calls++
			k, out, err := l.c[0].UseExtraSymmetricKey(7, []byte("u"))
			if err == nil {
				l.mix(k)
				for _, o := range out {
					l.mix(o)
				}
				l.pump(1, out)
			}
		}
		who := r.Intn(2)
		l.calls++
		out, _ := l.c[who].End()
		for _, o := range out {
			l.mix(o)
		}
		l.pump(1-who, out)
	}
}

func newLeanPair(seed uint64) *leanPair {
	return &leanPair{seed: seed, rng: NewPRNG(Mix(seed, "lean.script", 0)), h: fnv.New64a()}
}

// c20Hammer runs g lean pairs in parallel, then each alone, and compares.
func c20Hammer(rc *RunCtx) *Violation {
	// sized so that a run stays well inside the watchdog limit although nothing here touches
	// the shared progress counter while the goroutines are running
	g := 2 + rc.Cfg["pairs"]
	rounds := 2 + rc.Cfg["len"]%3
	for i := 0; i < 6; i++ {
		SharedKey(i) // all key objects exist before the goroutines start
	}
	par := make([]*leanPair, g)
	for i := range par {
		par[i] = newLeanPair(Mix(rc.Seed, "lean", uint64(i)))
	}
	var wg sync.WaitGroup
	start := make(chan struct{})
	for _, l := range par {
		wg.Add(1)
		go func(l *leanPair) {
			defer wg.Done()
			<-start
			l.run(rounds)
		}(l)
	}
	noBeatPhase.Store(1)
	close(start)
	wg.Wait()
	noBeatPhase.Store(0)
	heartbeat.Add(1)
	ws, calls := 0, 0
	for i, l := range par {
		solo := newLeanPair(Mix(rc.Seed, "lean", uint64(i)))
		solo.run(rounds)
		heartbeat.Add(1)
		if solo.h.Sum64() != l.h.Sum64() || solo.calls != l.calls {
			return rc.Viol("interference", fmt.Sprintf("conversation pair %d (bare Conversations, %d calls) produced different output when %d pairs ran in parallel than when it ran alone (transcript hash %016x vs %016x)", i, l.calls, g, l.h.Sum64(), solo.h.Sum64()),
				map[string]string{"mode": "2"})
		}
		if l.wsTag > 0 {
			ws++
		}
		calls += l.calls
	}
	rc.Stats.Nontrivial = calls >= 20*g
	rc.Stats.Sig = fmt.Sprintf("m2 g%d r%d %d", g, rounds, rc.Seed%100000)
	rc.Stats.Calls += calls
	rc.Probe("hammer_runs")
	rc.ProbeN("hammer_goroutines", g)
	if ws >= 2 {
		rc.Probe("two_pairs_sent_whitespace_tags_mode2")
	}
	return nil
}
