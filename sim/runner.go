package sim

import (
	"bufio"
	"encoding/json"
	"fmt"
	"hash/fnv"
	"io"
	"os"
	"os/exec"
	"path/filepath"
	"runtime"
	"runtime/debug"
	"sort"
	"strconv"
	"strings"
	"sync"
	"testing"
	"time"
)

func stackString() string { return string(debug.Stack()) }

func envInt(name string, def int) int {
	if s := os.Getenv(name); s != "" {
		if v, err := strconv.Atoi(s); err == nil {
			return v
		}
	}
	return def
}

func envStr(name, def string) string {
	if s := os.Getenv(name); s != "" {
		return s
	}
	return def
}

func verifDir() string { return envStr("VERIF_DIR", "/verif") }

// outDir is where evidence and replay files go (the real tree: /verif; scratch copies: elsewhere).
func outDir() string { return envStr("VERIF_OUT_DIR", verifDir()) }

// ---------------------------------------------------------------- known findings

type KnownFinding struct {
	Property string            `json:"property"`
	Status   string            `json:"status"` // known | fixed
	Rule     string            `json:"rule"`
	Shape    map[string]string `json:"shape"`
	What     string            `json:"what"`
	Commit   string            `json:"commit,omitempty"`
}

func loadKnown() []KnownFinding {
	b, err := os.ReadFile(filepath.Join(verifDir(), "known_findings.json"))
	if err != nil {
		return nil
	}
	var ks []KnownFinding
	if err := json.Unmarshal(b, &ks); err != nil {
		fmt.Fprintln(os.Stderr, "harness: known_findings.json unreadable:", err)
		os.Exit(2)
	}
	return ks
}

func matchKnown(ks []KnownFinding, v *Violation) *KnownFinding {
	for i := range ks {
		k := &ks[i]
		if k.Status != "known" || k.Property != v.Prop || k.Rule != v.Rule {
			continue
		}
		ok := true
		for sk, sv := range k.Shape {
			if v.Shape[sk] != sv {
				ok = false
				break
			}
		}
		if ok {
			return k
		}
	}
	return nil
}

// ---------------------------------------------------------------- worker

type workerMsg struct {
	T     string       `json:"t"` // run | viol | done | hang
	J     int          `json:"j,omitempty"`
	Seed  uint64       `json:"seed,omitempty"`
	Trace *Trace       `json:"trace,omitempty"`
	Stats *workerStats `json:"stats,omitempty"`
}

type workerStats struct {
	Runs      int               `json:"runs"`
	Sigs      []uint64          `json:"sigs"` // hashes of signatures of non-trivial runs
	Probes    map[string]int    `json:"probes"`
	Faults    map[string]int    `json:"faults"`
	SimTimeMs int64             `json:"simtime_ms"`
	Steps     int               `json:"steps"`
	Calls     int               `json:"calls"`
	IncPanics int               `json:"incidental_panics"`
	Known     map[string]int    `json:"known"`
	Samples   []json.RawMessage `json:"samples"`
	Nontriv   int               `json:"nontrivial"`
}

func runSeed(base uint64, prop string, j int) uint64 { return Mix(base, "run."+prop, uint64(j)) }

func hashSig(s string) uint64 { h := fnv.New64a(); _, _ = h.Write([]byte(s)); return h.Sum64() }

// startWatchdog kills the process when a run makes no progress. "No progress" is measured in
// the process's own CPU time, not in wall-clock time: on a loaded machine (several checks at
// once) a long but finite operation - a 70 000 byte text cut into 90 000 fragments - may take
// minutes of wall time between two heartbeats, and a wall-clock limit would report it as a hang
// (it did, once, in a thorough run: a false alarm). A loop that never ends burns CPU and is
// caught after `limit` seconds of CPU; a run that is blocked without burning CPU is caught after
// ten times that in wall-clock time.
func startWatchdog(curJ *int64, limit time.Duration) {
	go func() {
		last := heartbeat.Load()
		lastChange := time.Now()
		lastCPU := processCPU()
		for {
			time.Sleep(500 * time.Millisecond)
			h := heartbeat.Load()
			if h != last {
				last, lastChange, lastCPU = h, time.Now(), processCPU()
				continue
			}
			if noBeatPhase.Load() != 0 {
				// C20's parallel modes: the goroutines under test must not touch anything shared, so
				// nobody reports progress while they run (many threads, much CPU). Only the
				// wall-clock limit applies until the phase is over.
				lastCPU = processCPU()
			}
			if processCPU()-lastCPU > limit || time.Since(lastChange) > 10*limit {
				// where it is stuck goes to stderr (the runner keeps head and tail of it for the report)
				buf := make([]byte, 1<<16)
				buf = buf[:runtime.Stack(buf, true)]
				fmt.Fprintf(os.Stderr, "watchdog: no progress in run j=%d (cpu %v, wall %v since the last heartbeat)\n%s\n", *curJ, processCPU()-lastCPU, time.Since(lastChange), buf)
				fmt.Printf("{\"t\":\"hang\",\"j\":%d}\n", *curJ)
				os.Exit(3)
			}
		}
	}()
}

func workerMain(t *testing.T) {
	p := Props[os.Getenv("VERIF_PROP")]
	if p == nil {
		fmt.Fprintln(os.Stderr, "harness: unknown property")
		os.Exit(2)
	}
	tier := envStr("VERIF_TIER", "quick")
	base := uint64(envInt("VERIF_SEED", 1))
	wi, wn := envInt("VERIF_WORKER", 0), envInt("VERIF_WORKERS", 1)
	budget := time.Duration(envInt("VERIF_BUDGET_S", 30)) * time.Second
	maxRuns := envInt("VERIF_MAXRUNS", 1<<30)
	start := envInt("VERIF_START", wi)
	fixed := false
	if p.Fixed != nil {
		if n := p.Fixed(tier); n > 0 {
			fixed = true
			if n < maxRuns {
				maxRuns = n
			}
		}
	}
	known := loadKnown()
	out := bufio.NewWriter(os.Stdout)
	emit := func(m workerMsg) {
		b, _ := json.Marshal(m)
		_, _ = out.Write(append(b, '\n'))
		_ = out.Flush()
	}
	var curJ int64
	startWatchdog(&curJ, time.Duration(envInt("VERIF_WATCHDOG_S", 120))*time.Second)
	st := &workerStats{Probes: map[string]int{}, Faults: map[string]int{}, Known: map[string]int{}}
	sigs := map[uint64]bool{}
	begin := time.Now()
	lastStat := time.Now()
	viols := 0
	for j := start; j < maxRuns; j += wn {
		if !fixed && time.Since(begin) > budget {
			break
		}
		if fixed && time.Since(begin) > 3*budget {
			break
		}
		curJ = int64(j)
		heartbeat.Add(1)
		seed := runSeed(base, p.ID, j)
		fmt.Fprintf(out, "{\"t\":\"run\",\"j\":%d}\n", j)
		_ = out.Flush()
		rc, v := Explore(t, p, seed, tier, false, nil, j)
		st.Runs++
		for k, n := range rc.Stats.Probes {
			st.Probes[k] += n
		}
		for k, n := range rc.Stats.Faults {
			st.Faults[k] += n
		}
		st.SimTimeMs += rc.Stats.SimTime.Milliseconds()
		st.Steps += rc.Stats.Steps
		st.Calls += rc.Stats.Calls
		st.IncPanics += rc.Stats.IncPanics
		if rc.Stats.Nontrivial {
			st.Nontriv++
			sigs[hashSig(rc.Stats.Sig)] = true
		}
		if len(st.Samples) < 2 && rc.Stats.Nontrivial && v == nil {
			tr := rc.ToTrace(nil)
			if len(tr.Steps) > 60 {
				tr.Steps = tr.Steps[:60]
			}
			b, _ := json.Marshal(map[string]interface{}{"seed": seed, "cfg": tr.Cfg, "parties": tr.Parties, "steps": stepStrings(tr.Steps), "sig": rc.Stats.Sig})
			st.Samples = append(st.Samples, b)
		}
		if time.Since(lastStat) > 2*time.Second {
			lastStat = time.Now()
			st.Sigs = st.Sigs[:0]
			for s := range sigs {
				st.Sigs = append(st.Sigs, s)
			}
			sort.Slice(st.Sigs, func(a, b int) bool { return st.Sigs[a] < st.Sigs[b] })
			emit(workerMsg{T: "stat", Stats: st})
		}
		if v != nil {
			if v.Rule == "harness.panic" {
				fmt.Fprintf(os.Stderr, "HARNESS-PANIC in run j=%d seed=%d: %s\n", j, seed, v.Detail)
				os.Exit(2)
			}
			if k := matchKnown(known, v); k != nil {
				st.Known[k.What]++
				continue
			}
			viols++
			if viols > 3 {
				continue // enough distinct reports from this worker
			}
			tr := rc.ToTrace(v)
			if p.NondetReplay != nil && p.NondetReplay(rc) {
				tr.Mode, tr.J, tr.Steps = "generate", j, nil
				emit(workerMsg{T: "viol", J: j, Seed: seed, Trace: tr})
				continue
			}
			tr = Shrink(t, p, tr, 40*time.Second)
			// final replay with log kept, for the replay file
			rc2, v2 := ReplayTrace(t, p, tr, true)
			if v2 != nil {
				tr = rc2.ToTrace(v2)
				tr.OrigLen = rc.Stats.Steps
				lg := rc2.Stats.Log
				if len(lg) > 400 {
					lg = lg[len(lg)-400:]
				}
				tr.Log = lg
			}
			emit(workerMsg{T: "viol", J: j, Seed: seed, Trace: tr})
		}
	}
	st.Sigs = st.Sigs[:0]
	for s := range sigs {
		st.Sigs = append(st.Sigs, s)
	}
	sort.Slice(st.Sigs, func(a, b int) bool { return st.Sigs[a] < st.Sigs[b] })
	emit(workerMsg{T: "done", Stats: st})
}

func stepStrings(ss []Step) []string {
	var out []string
	for _, s := range ss {
		out = append(out, s.String())
	}
	return out
}

// ---------------------------------------------------------------- replay role

func replayMain(t *testing.T) {
	path := os.Getenv("VERIF_REPLAY")
	b, err := os.ReadFile(path)
	if err != nil {
		fmt.Fprintln(os.Stderr, "harness: cannot read replay file:", err)
		os.Exit(2)
	}
	var tr Trace
	if err := json.Unmarshal(b, &tr); err != nil {
		fmt.Fprintln(os.Stderr, "harness: bad replay file:", err)
		os.Exit(2)
	}
	p := Props[tr.Prop]
	if p == nil {
		fmt.Fprintln(os.Stderr, "harness: unknown property in replay file")
		os.Exit(2)
	}
	var curJ int64
	startWatchdog(&curJ, time.Duration(envInt("VERIF_WATCHDOG_S", 120))*time.Second)
	rc, v := ReplayTrace(t, p, &tr, os.Getenv("VERIF_VERBOSE") != "")
	if os.Getenv("VERIF_VERBOSE") != "" {
		for _, l := range rc.Stats.Log {
			fmt.Println(l)
		}
	}
	fmt.Printf("REPLAY digest=%s recorded=%s\n", rc.Stats.Digest, tr.Digest)
	if v == nil {
		fmt.Println("REPLAY: no violation")
		os.Exit(0)
	}
	fmt.Printf("REPLAY: rule=%s shape=%s\n%s\n", v.Rule, v.ShapeKey(), v.Detail)
	if os.Getenv("VERIF_CORPUS") != "" {
		if k := matchKnown(loadKnown(), v); k != nil {
			fmt.Printf("CORPUS-KNOWN %s\n", k.What)
			os.Exit(0)
		}
	}
	fmt.Printf("VIOLATION property=%s replay=%s\n", tr.Prop, path)
	os.Exit(1)
}

// ---------------------------------------------------------------- regression corpus

// runCorpus replays every trace under corpus/<property>/ (minimised traces of defects that
// were repaired and of seeded changes the check once caught: none of them violates the
// property on a correct tree), each in a fresh process. A violation is reported with the
// corpus file as its replay file. Returns the number of violating traces.
func runCorpus(p *PropDef, total *workerStats) int {
	files, _ := filepath.Glob(filepath.Join(verifDir(), "corpus", p.ID, "*.json"))
	sort.Strings(files)
	type res struct {
		out  string
		code int
	}
	out := make([]res, len(files))
	sem := make(chan bool, runtime.NumCPU())
	var wg sync.WaitGroup
	for i, f := range files {
		wg.Add(1)
		sem <- true
		go func(i int, f string) {
			defer wg.Done()
			defer func() { <-sem }()
			cmd := exec.Command(os.Args[0], "-test.run", "^TestSim$", "-test.timeout", "0")
			cmd.Env = append(os.Environ(), "VERIF_ROLE=replay", "VERIF_REPLAY="+f, "VERIF_CORPUS=1", "GOMAXPROCS=4")
			b, err := cmd.CombinedOutput()
			code := 0
			if err != nil {
				code = -1
				if ee, ok := err.(*exec.ExitError); ok {
					code = ee.ExitCode()
				}
			}
			out[i] = res{string(b), code}
		}(i, f)
	}
	wg.Wait()
	exit := 0
	for i, f := range files {
		r := out[i]
		total.Probes["corpus_traces_replayed"]++
		switch {
		case r.code == 0 && strings.Contains(r.out, "CORPUS-KNOWN "):
			total.Known[strings.TrimSpace(strings.SplitN(strings.SplitN(r.out, "CORPUS-KNOWN ", 2)[1], "\n", 2)[0])]++
		case r.code == 0:
		case r.code == 1 && strings.Contains(r.out, "VIOLATION property="+p.ID):
			rule := ""
			for _, l := range strings.Split(r.out, "\n") {
				if strings.HasPrefix(l, "REPLAY: rule=") {
					rule = strings.TrimPrefix(l, "REPLAY: ")
				}
			}
			fmt.Printf("violation: %s (regression corpus trace %s)\n", rule, filepath.Base(f))
			fmt.Printf("VIOLATION property=%s replay=%s\n", p.ID, f)
			exit++
		default:
			// the process died: a crash or hang is a violation only where crash-freedom is the property
			if p.OwnsCrash && r.code != 2 {
				v := &Violation{Prop: p.ID, Rule: "fatal", Shape: map[string]string{"kind": fatalKind(r.out)}}
				if k := matchKnown(loadKnown(), v); k != nil {
					total.Known[k.What]++
					continue
				}
				fmt.Printf("violation: rule=fatal shape=%s (regression corpus trace %s)\n  %s\n", v.ShapeKey(), filepath.Base(f), firstLine(headTail(r.out, 300, 300)))
				fmt.Printf("VIOLATION property=%s replay=%s\n", p.ID, f)
				exit++
			} else if r.code == 2 {
				fmt.Fprintf(os.Stderr, "harness: corpus trace %s could not be replayed (exit %d):\n%s\n", f, r.code, tail(r.out, 1500))
				os.Exit(2)
			} else {
				total.IncPanics++
			}
		}
	}
	return exit
}

// ---------------------------------------------------------------- runner

type evidence struct {
	PropertyID  string                 `json:"property_id"`
	Tier        string                 `json:"tier"`
	Seed        int                    `json:"seed"`
	Level       string                 `json:"level"`
	Coverage    map[string]interface{} `json:"coverage"`
	Assumptions []string               `json:"assumptions"`
	WallS       float64                `json:"wall_s"`
	Violations  int                    `json:"violations"`
}

func runnerMain(t *testing.T) {
	pid := os.Getenv("VERIF_PROP")
	p := Props[pid]
	if p == nil {
		fmt.Fprintln(os.Stderr, "harness: unknown property", pid)
		os.Exit(2)
	}
	tier := envStr("VERIF_TIER", "quick")
	seed := envInt("VERIF_SEED", 1)
	def := p.QuickS
	if def == 0 {
		def = 30
	}
	if tier == "thorough" {
		def = p.ThoroughS
		if def == 0 {
			def = 600
		}
	}
	budget := envInt("VERIF_BUDGET_S", def)
	nw := envInt("VERIF_WORKERS", runtime.NumCPU())
	begin := time.Now()
	known := loadKnown()

	type wres struct {
		stats  *workerStats
		viols  []*Trace
		fatals []string
		hangs  []int
		killed int
	}
	results := make([]wres, nw)
	var wg sync.WaitGroup
	var mu sync.Mutex
	harnessErr := false
	for i := 0; i < nw; i++ {
		wg.Add(1)
		go func(i int) {
			defer wg.Done()
			startJ := i
			remaining := time.Duration(budget) * time.Second
			for attempt := 0; attempt < 50; attempt++ {
				cmd := exec.Command(os.Args[0], "-test.run", "^TestSim$", "-test.timeout", "0")
				left := int(remaining.Seconds()) - int(time.Since(begin).Seconds())
				if left < 1 {
					left = 1
				}
				cmd.Env = append(os.Environ(), "VERIF_ROLE=worker", "VERIF_PROP="+pid, "VERIF_TIER="+tier,
					fmt.Sprintf("VERIF_SEED=%d", seed), fmt.Sprintf("VERIF_WORKER=%d", i), fmt.Sprintf("VERIF_WORKERS=%d", nw),
					fmt.Sprintf("VERIF_BUDGET_S=%d", left), fmt.Sprintf("VERIF_START=%d", startJ), "GOMAXPROCS=2")
				so, _ := cmd.StdoutPipe()
				var se strings.Builder
				cmd.Stderr = &limitedWriter{w: &se, n: 1 << 20}
				if err := cmd.Start(); err != nil {
					mu.Lock()
					harnessErr = true
					mu.Unlock()
					return
				}
				sc := bufio.NewScanner(so)
				sc.Buffer(make([]byte, 1<<20), 64<<20)
				lastJ := -1
				var latest *workerStats
				done := false
				hang := false
				for sc.Scan() {
					line := sc.Bytes()
					if len(line) == 0 || line[0] != '{' {
						continue
					}
					var m workerMsg
					if err := json.Unmarshal(line, &m); err != nil {
						continue
					}
					switch m.T {
					case "run":
						lastJ = m.J
					case "viol":
						mu.Lock()
						results[i].viols = append(results[i].viols, m.Trace)
						mu.Unlock()
					case "hang":
						hang = true
						lastJ = m.J
					case "stat":
						latest = m.Stats
					case "done":
						done = true
						latest = m.Stats
					}
				}
				err := cmd.Wait()
				if latest != nil {
					// cumulative statistics of this worker instance (also if it died later)
					mu.Lock()
					if results[i].stats == nil {
						results[i].stats = latest
					} else {
						mergeStats(results[i].stats, latest)
						results[i].stats.Sigs = append(results[i].stats.Sigs, latest.Sigs...)
					}
					mu.Unlock()
				}
				if done {
					return
				}
				// worker died: fatal runtime error or watchdog
				code := -1
				if ee, ok := err.(*exec.ExitError); ok {
					code = ee.ExitCode()
				}
				if strings.Contains(se.String(), "HARNESS-PANIC") || (code == 2 && !hang && !strings.Contains(se.String(), "fatal error") && !strings.Contains(se.String(), "goroutine ")) {
					mu.Lock()
					if !harnessErr {
						fmt.Fprintf(os.Stderr, "harness error in worker %d:\n%s\n", i, tail(se.String(), 3000))
					}
					harnessErr = true
					mu.Unlock()
					return
				}
				if !hang && code == -1 && strings.TrimSpace(se.String()) == "" {
					// killed from outside (the kernel's out-of-memory killer is the usual sender): no Go
					// runtime message, no watchdog report. That is trouble of the machine, never a
					// verdict on otr3 - the run is noted and skipped.
					mu.Lock()
					results[i].killed++
					mu.Unlock()
					fmt.Printf("NOTE: worker %d was killed from outside in run j=%d (no runtime message, no watchdog report); not counted\n", i, lastJ)
					startJ = lastJ + nw
					if time.Since(begin) > time.Duration(budget)*time.Second {
						return
					}
					continue
				}
				mu.Lock()
				if hang {
					results[i].hangs = append(results[i].hangs, lastJ)
				}
				results[i].fatals = append(results[i].fatals, fmt.Sprintf("%d\x00%s", lastJ, headTail(se.String(), 1500, 2500)))
				mu.Unlock()
				if lastJ < 0 {
					mu.Lock()
					harnessErr = true
					mu.Unlock()
					fmt.Fprintf(os.Stderr, "harness: worker %d died before its first run (exit %d):\n%s\n", i, code, tail(se.String(), 4000))
					return
				}
				startJ = lastJ + nw
				if time.Since(begin) > time.Duration(budget)*time.Second {
					return
				}
			}
		}(i)
	}
	wg.Wait()
	if harnessErr {
		os.Exit(2)
	}

	total := &workerStats{Probes: map[string]int{}, Faults: map[string]int{}, Known: map[string]int{}}
	sigset := map[uint64]bool{}
	var viols []*Trace
	corpusExit := runCorpus(p, total)
	incidentalFatal := 0
	for i := range results {
		if results[i].stats != nil {
			mergeStats(total, results[i].stats)
			for _, s := range results[i].stats.Sigs {
				sigset[s] = true
			}
		}
		viols = append(viols, results[i].viols...)
		if results[i].killed > 0 {
			total.Probes["workers_killed_from_outside"] += results[i].killed
		}
		for _, f := range results[i].fatals {
			parts := strings.SplitN(f, "\x00", 2)
			j, _ := strconv.Atoi(parts[0])
			v := &Violation{Prop: pid, Rule: "fatal", Detail: parts[1], Shape: map[string]string{"kind": fatalKind(parts[1])}}
			tr := &Trace{Prop: pid, Seed: runSeed(uint64(seed), pid, j), Tier: tier, Mode: "generate", Viol: v, J: j}
			if !p.OwnsCrash {
				total.IncPanics++
				incidentalFatal++
				if incidentalFatal <= 3 {
					fmt.Printf("NOTE: property=%s run j=%d seed=%d killed the worker (%s); crash-freedom is decided by C13, counted as incidental\n", pid, j, tr.Seed, v.Shape["kind"])
				}
				continue
			}
			if k := matchKnown(known, v); k != nil {
				total.Known[k.What]++
				continue
			}
			viols = append(viols, tr)
		}
	}

	// de-duplicate violations by shape; write replay files; verify each replays
	exit := 0
	seen := map[string]bool{}
	nv := 0
	_ = os.MkdirAll(filepath.Join(outDir(), "replays"), 0o755)
	for _, tr := range viols {
		key := tr.Viol.ShapeKey()
		if seen[key] {
			continue
		}
		seen[key] = true
		nv++
		name := fmt.Sprintf("%s-%016x.json", pid, hashSig(key+fmt.Sprint(tr.Seed)))
		path := filepath.Join(outDir(), "replays", name)
		b, _ := json.MarshalIndent(tr, "", " ")
		_ = os.WriteFile(path, b, 0o644)
		// verify in a fresh process
		if tr.Mode == "steps" {
			cmd := exec.Command(os.Args[0], "-test.run", "^TestSim$", "-test.timeout", "0")
			cmd.Env = append(os.Environ(), "VERIF_ROLE=replay", "VERIF_REPLAY="+path)
			outb, _ := cmd.CombinedOutput()
			if !strings.Contains(string(outb), "VIOLATION property="+pid) || !strings.Contains(string(outb), "digest="+tr.Digest+" ") {
				fmt.Fprintf(os.Stderr, "harness error: violation does not replay identically (%s):\n%s\n", path, tail(string(outb), 3000))
				os.Exit(2)
			}
		}
		if nv <= 8 {
			fmt.Printf("violation: rule=%s shape=%s steps=%d (from %d)\n  %s\n", tr.Viol.Rule, key, len(tr.Steps), tr.OrigLen, firstLine(tr.Viol.Detail))
		}
		fmt.Printf("VIOLATION property=%s replay=%s\n", pid, path)
		exit = 1
	}
	if corpusExit != 0 {
		exit = 1
		nv += corpusExit
	}
	for _, k := range sortedKeys(total.Known) {
		fmt.Printf("KNOWN-FINDING: property=%s %s (matched %d runs)\n", pid, k, total.Known[k])
	}

	wall := time.Since(begin).Seconds()
	level := p.Level
	if level == "" {
		level = "exploration"
	}
	stuck := []string{}
	for _, k := range sortedKeys(total.Probes) {
		if total.Probes[k] == 0 {
			stuck = append(stuck, k)
		}
	}
	var samples []interface{}
	for i, s := range total.Samples {
		if i >= 3 {
			break
		}
		var x interface{}
		_ = json.Unmarshal(s, &x)
		samples = append(samples, x)
	}
	if len(samples) == 0 {
		samples = append(samples, "no non-trivial run completed")
	}
	runsPerHour := 0.0
	if wall > 0 {
		runsPerHour = float64(total.Runs) / wall * 3600
	}
	ev := evidence{PropertyID: pid, Tier: tier, Seed: seed, Level: level, WallS: wall, Violations: nv,
		Assumptions: append([]string{
			"simulation samples schedules/faults; a clean batch is evidence, not proof",
			"real code: package otr3 (+sexp, constbn, memcall, Go stdlib crypto); stubs: randomness (SimRand), clock (testing/synctest fake clock), network (SimNet), peer where noted (refotr)",
		}, p.Assume...),
		Coverage: map[string]interface{}{
			"evaluations":          total.Runs,
			"distinct_nontrivial":  len(sigset),
			"nontrivial_runs":      total.Nontriv,
			"rule":                 p.Rule,
			"samples":              samples,
			"runs_per_hour":        int(runsPerHour),
			"seeds":                fmt.Sprintf("base VERIF_SEED=%d; run j uses Mix(base,\"run.%s\",j), j=0..%d", seed, pid, total.Runs-1),
			"simulated_time_s":     total.SimTimeMs / 1000,
			"steps":                total.Steps,
			"api_calls":            total.Calls,
			"faults_fired":         total.Faults,
			"probes":               total.Probes,
			"probes_stuck_at_zero": stuck,
			"incidental_panics":    total.IncPanics,
			"known_findings_hit":   total.Known,
			"workers":              nw,
			"exhaustive":           p.Fixed != nil && p.Fixed(tier) > 0 && total.Runs >= p.Fixed(tier),
		}}
	_ = os.MkdirAll(filepath.Join(outDir(), "evidence"), 0o755)
	b, _ := json.MarshalIndent(ev, "", " ")
	if err := os.WriteFile(filepath.Join(outDir(), "evidence", pid+".json"), b, 0o644); err != nil {
		fmt.Fprintln(os.Stderr, "harness: cannot write evidence:", err)
		os.Exit(2)
	}
	fmt.Printf("%s %s: runs=%d nontrivial=%d distinct=%d steps=%d calls=%d simtime=%ds wall=%.1fs violations=%d known=%d\n",
		pid, tier, total.Runs, total.Nontriv, len(sigset), total.Steps, total.Calls, total.SimTimeMs/1000, wall, nv, len(total.Known))
	if total.Runs == 0 {
		fmt.Fprintln(os.Stderr, "harness: no run completed")
		os.Exit(2)
	}
	os.Exit(exit)
}

func fatalKind(s string) string {
	for _, k := range []string{"DATA RACE", "stack overflow", "out of memory", "all goroutines are asleep", "concurrent map", "watchdog"} {
		if strings.Contains(s, k) {
			return k
		}
	}
	if s == "" {
		return "hang-or-killed"
	}
	return "other"
}

func firstLine(s string) string {
	if i := strings.IndexByte(s, '\n'); i >= 0 {
		return s[:i]
	}
	return s
}

func headTail(s string, h, t int) string {
	if len(s) <= h+t {
		return s
	}
	return s[:h] + "\n[...]\n" + s[len(s)-t:]
}

func tail(s string, n int) string {
	if len(s) > n {
		return s[len(s)-n:]
	}
	return s
}

type limitedWriter struct {
	w io.Writer
	n int
}

func (l *limitedWriter) Write(b []byte) (int, error) {
	if l.n > 0 {
		k := len(b)
		if k > l.n {
			k = l.n
		}
		_, _ = l.w.Write(b[:k])
		l.n -= k
	}
	return len(b), nil
}

func mergeStats(a, b *workerStats) {
	a.Runs += b.Runs
	a.SimTimeMs += b.SimTimeMs
	a.Steps += b.Steps
	a.Calls += b.Calls
	a.IncPanics += b.IncPanics
	a.Nontriv += b.Nontriv
	for k, v := range b.Probes {
		a.Probes[k] += v
	}
	for k, v := range b.Faults {
		a.Faults[k] += v
	}
	for k, v := range b.Known {
		a.Known[k] += v
	}
	if len(a.Samples) < 3 {
		a.Samples = append(a.Samples, b.Samples...)
	}
}

// Main dispatches on VERIF_ROLE. Called from TestSim.
func Main(t *testing.T) {
	switch envStr("VERIF_ROLE", "") {
	case "worker":
		workerMain(t)
	case "replay":
		replayMain(t)
	case "runner":
		runnerMain(t)
	case "digest":
		digestMain(t)
	default:
		t.Skip("set VERIF_ROLE")
	}
}

// digestMain prints the event-log digest of a few generated runs (determinism self-test).
func digestMain(t *testing.T) {
	p := Props[os.Getenv("VERIF_PROP")]
	if p == nil {
		os.Exit(2)
	}
	base := uint64(envInt("VERIF_SEED", 1))
	n := envInt("VERIF_MAXRUNS", 8)
	for j := 0; j < n; j++ {
		rc, v := Explore(t, p, runSeed(base, p.ID, j), envStr("VERIF_TIER", "quick"), false, nil, j)
		r := ""
		if v != nil {
			r = v.ShapeKey()
		}
		fmt.Printf("DIGEST %s j=%d %s steps=%d %s\n", p.ID, j, rc.Stats.Digest, rc.Stats.Steps, r)
	}
	os.Exit(0)
}
