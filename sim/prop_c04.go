package sim

import (
	"bytes"
	"fmt"
)

// C04 – exactly-once, in-order, unchanged delivery across DH key rotation.
// World: A, B encrypted; two reliable FIFO links. Schedule space: every
// interleaving of sends and head-of-queue deliveries, bursts, ticks
// (heartbeats), SMP and extra-key traffic, fragment sizes, both versions.

func init() {
	Register(&PropDef{
		ID: "C04", Title: "exactly-once in-order delivery across key rotation",
		Config: c04Config, Run: c04Run, OwnsCrash: true, MaxSteps: 220,
		Rule: "runs = PRNG-generated interleavings of send/deliver(FIFO head)/tick/SMP/extra-key/set-fragment-size steps on an encrypted pair; " +
			"non-trivial = both directions delivered >=3 texts and at least 2 messages were in flight at once; distinct = distinct (config, abstract step-kind sequence, ratchet-position set) signatures",
		Assume: []string{"links are reliable FIFO (the property's premise)", "texts are NUL-free and non-empty (an empty text is a heartbeat by protocol design)"},
	})
}

func c04Config(rc *RunCtx) {
	r := rc.Rng
	rc.Cfg["version"] = []int{2, 3, 3, 23}[r.Intn(4)]
	rc.Cfg["alphabet"] = textAlphabet(r)
	rc.Cfg["pattern"] = r.Intn(6) // 0 mixed, 1 ping-pong, 2 A-only bursts, 3 both burst, 4 long texts, 5 ticks-heavy
	rc.Cfg["smp"] = r.Intn(3) / 2
	rc.Cfg["xkey"] = r.Intn(3) / 2
	rc.Cfg["refrag"] = r.Intn(3) / 2
	rc.Cfg["starter"] = r.Intn(2)
	pol := polFor(rc.Cfg["version"])
	fa, fb := 0, 0
	if r.Chance(1, 2) {
		fa = fragSizes[PickFrag(r)]
	}
	if r.Chance(1, 2) {
		fb = fragSizes[PickFrag(r)]
	}
	rc.Parties = []PartyCfg{
		{KeyIdx: 0, Pol: pol, Frag: fa, Peer: 1, ErrHandler: r.Bool()},
		{KeyIdx: 1, Pol: pol, Frag: fb, Peer: 0, ErrHandler: r.Bool()},
	}
}

type c04State struct {
	ask      [2]bool // SMP secret requested from the user
	maxFly   int
	burst    int
	burstWho int
}

func isPrefix(got, sent [][]byte) (bool, int) {
	if len(got) > len(sent) {
		return false, len(sent)
	}
	for i := range got {
		if !bytes.Equal(got[i], sent[i]) {
			return false, i
		}
	}
	return true, -1
}

func nonEmpty(ts [][]byte) [][]byte {
	var out [][]byte
	for _, t := range ts {
		if len(t) > 0 {
			out = append(out, t)
		}
	}
	return out
}

func c04Run(rc *RunCtx) *Violation {
	w := rc.NewWorld(rc.Parties)
	st := &c04State{}
	w.Observers = append(w.Observers, func(p *Party, r *CallResult) {
		if r.HasEvent("smp", "AskForSecret") || r.HasEvent("smp", "AskForAnswer") {
			st.ask[p.Idx] = true
		}
		if r.Kind == "smpanswer" || r.HasEvent("smp", "Abort") || r.HasEvent("smp", "Error") || r.HasEvent("smp", "Cheated") {
			st.ask[p.Idx] = false
		}
	})
	if !w.Handshake(rc.Cfg["starter"]) {
		return rc.Viol("setup.handshake", "query-initiated AKE over reliable links did not complete", nil)
	}
	for i := range w.P { // texts before the session are not part of the accounting
		w.P[i].SentText = nil
		w.Got[i] = nil
	}
	kinds := ""
	check := func(r *CallResult) *Violation {
		if r != nil {
			if r.Panic != "" {
				return rc.Viol("panic", fmt.Sprintf("%s.%s panicked: %s\n%s", w.P[r.Party].Name, r.Kind, r.Panic, r.Stack), map[string]string{"call": r.Kind})
			}
			if r.Kind == "recv" && r.Err != "" {
				return rc.Viol("genuine.rejected", fmt.Sprintf("%s.Receive of genuine traffic returned error %q (input %s)", w.P[r.Party].Name, r.Err, short(r.In)), map[string]string{"err": r.Err})
			}
			if r.Kind == "send" && r.Err != "" {
				return rc.Viol("send.error", fmt.Sprintf("%s.Send failed in an encrypted session: %s", w.P[r.Party].Name, r.Err), map[string]string{"err": r.Err})
			}
			if (r.Kind == "send" || r.Kind == "recv") && !r.Post.Enc {
				return rc.Viol("left.encrypted", fmt.Sprintf("%s left the encrypted state on genuine traffic", w.P[r.Party].Name), nil)
			}
		}
		for d := 0; d < 2; d++ {
			got, sent := w.Got[1-d], nonEmpty(w.P[d].SentText)
			if ok, at := isPrefix(got, sent); !ok {
				g := []byte("<none>")
				if at < len(got) {
					g = got[at]
				}
				return rc.Viol("order", fmt.Sprintf("texts returned by %s are not a prefix of texts sent by %s: position %d got %s", w.P[1-d].Name, w.P[d].Name, at, short(g)),
					map[string]string{"kind": "not-prefix"})
			}
		}
		if f := w.TotalInFlight(); f > st.maxFly {
			st.maxFly = f
		}
		return nil
	}
	gen := func() (Step, bool) {
		r := rc.Rng
		pat := rc.Cfg["pattern"]
		fly := [2]int{w.InFlight(0, 1), w.InFlight(1, 0)}
		if st.burst > 0 {
			st.burst--
			return Step{K: "send", A: st.burstWho, B: 1 + r.Intn(3), C: rc.Cfg["alphabet"]}, true
		}
		// weights: sendA sendB delAB delBA tick smpstart smpanswer extrakey setfrag burst
		wt := []int{10, 10, 14, 14, 2, 0, 0, 0, 0, 2}
		switch pat {
		case 1:
			wt = []int{8, 8, 30, 30, 1, 0, 0, 0, 0, 0}
		case 2:
			wt = []int{20, 1, 8, 8, 1, 0, 0, 0, 0, 4}
		case 3:
			wt = []int{12, 12, 6, 6, 1, 0, 0, 0, 0, 6}
		case 4:
			wt = []int{10, 10, 14, 14, 1, 0, 0, 0, 0, 0}
		case 5:
			wt = []int{10, 10, 14, 14, 10, 0, 0, 0, 0, 1}
		}
		if fly[0] == 0 {
			wt[2] = 0
		}
		if fly[1] == 0 {
			wt[3] = 0
		}
		if fly[0]+fly[1] > 40 {
			wt[0], wt[1], wt[9] = 0, 0, 0
		}
		if rc.Cfg["smp"] == 1 {
			wt[5] = 1
			if st.ask[0] || st.ask[1] {
				wt[6] = 6
			}
		}
		if rc.Cfg["xkey"] == 1 {
			wt[7] = 1
		}
		if rc.Cfg["refrag"] == 1 {
			wt[8] = 1
		}
		cls := 1 + r.Intn(4)
		if pat == 4 {
			cls = 4 + r.Intn(3)
		}
		switch r.Pick(wt) {
		case 0:
			return Step{K: "send", A: 0, B: cls, C: rc.Cfg["alphabet"]}, true
		case 1:
			return Step{K: "send", A: 1, B: cls, C: rc.Cfg["alphabet"]}, true
		case 2:
			return Step{K: "deliver", A: 0, B: 1}, true
		case 3:
			return Step{K: "deliver", A: 1, B: 0}, true
		case 4:
			return Step{K: "tick", A: r.Intn(len(tickDur))}, true
		case 5:
			return Step{K: "smpstart", A: r.Intn(2), B: r.Intn(2), C: 0}, true
		case 6:
			who := 0
			if st.ask[1] && (!st.ask[0] || r.Bool()) {
				who = 1
			}
			return Step{K: "smpanswer", A: who, C: 0}, true
		case 7:
			return Step{K: "extrakey", A: r.Intn(2), B: r.Intn(5), C: r.Intn(3)}, true
		case 8:
			return Step{K: "setfrag", A: r.Intn(2), B: PickFrag(r)}, true
		default:
			st.burst = 2 + r.Intn(20)
			st.burstWho = r.Intn(2)
			return Step{K: "send", A: st.burstWho, B: 1, C: rc.Cfg["alphabet"]}, true
		}
	}
	for {
		s, ok := rc.NextStep(gen)
		if !ok {
			break
		}
		if s.K == "deliver" {
			s.C = 0 // FIFO: head of queue only
		}
		r, known := w.Exec(s)
		if !known {
			continue
		}
		kinds += s.K[:2] + fmt.Sprint(s.A)
		if v := check(r); v != nil {
			return v
		}
	}
	// quiescence: drain both FIFO links
	for n := 0; n < 200000 && w.TotalInFlight() > 0; n++ {
		for _, l := range [][2]int{{0, 1}, {1, 0}} {
			if w.InFlight(l[0], l[1]) > 0 {
				if v := check(w.Deliver(w.Take(l[0], l[1], 0))); v != nil {
					return v
				}
			}
		}
	}
	if w.TotalInFlight() > 0 {
		return rc.Viol("no-quiescence", "links did not drain within 200000 rounds", nil)
	}
	for d := 0; d < 2; d++ {
		got, sent := w.Got[1-d], nonEmpty(w.P[d].SentText)
		if len(got) != len(sent) {
			return rc.Viol("lost", fmt.Sprintf("%s sent %d texts, %s received %d at quiescence", w.P[d].Name, len(sent), w.P[1-d].Name, len(got)), map[string]string{"kind": "lost"})
		}
	}
	rc.Stats.Nontrivial = len(w.Got[0]) >= 3 && len(w.Got[1]) >= 3 && st.maxFly >= 2
	rc.Stats.Sig = fmt.Sprintf("v%d f%d/%d %s", rc.Cfg["version"], rc.Parties[0].Frag, rc.Parties[1].Frag, kinds)
	rc.ProbeN("texts_delivered", len(w.Got[0])+len(w.Got[1]))
	rc.ProbeN("max_in_flight_ge_10", b2i(st.maxFly >= 10))
	rc.ProbeN("heartbeats_sent", countEvents(w, "msg", "LogHeartbeatSent"))
	return nil
}

func b2i(b bool) int {
	if b {
		return 1
	}
	return 0
}

// countEvents is filled by the event counter observer installed in NewWorld.
func countEvents(w *World, kind, name string) int { return w.EvCount[kind+":"+name] }
