package sim

import (
	"bytes"
	"crypto/sha256"
	"encoding/hex"
	"fmt"
	"math/big"

	"verifsim/refotr"
)

// C01 – the key exchange authenticates the peer and both sides agree.
// World: Alice and Bob (real), Mallory (attacker: full control of the links,
// an own long-term key M, and the reference implementation as her protocol
// engine, from which she deviates at will).

func init() {
	Register(&PropDef{
		ID: "C01", Title: "AKE authenticates the peer; both sides agree on the session",
		Config: c01Config, Run: c01Run, MaxSteps: 60,
		Rule: "runs = AKE between two real parties under an active attacker: reorder/duplicate/drop/replay (also from an earlier session), 12 field-level AKE mutators, and Mallory as a protocol participant with her own key who commits to one g^x and reveals another, sends degenerate DH values (0,1,p-1,p,p+1) and boundary ones (2,p-2), advertises the victim's peer key inside her X block with her own or a garbage signature, relays between two separate exchanges, and starts and aborts refresh exchanges against an encrypted victim at every stage; " +
			"oracles: shadow reference (strict specification checks, same inputs and randomness) must agree on every accept; the DH value behind a session whose reported peer key is honest Q must be Q's own current exchange value; reported key/SSID stable while encrypted; agreement + probes when both ends share an exchange; " +
			"non-trivial = at least 2 attacker actions hit an exchange and some party evaluated a Reveal-Signature or Signature message; distinct = distinct (scenario, step sequence) signatures",
		Assume: []string{"cryptographic strength of DSA/DH/SHA is not tested; conformance of the checks is", "Mallory never holds A's or B's private key"},
	})
}

func c01Config(rc *RunCtx) {
	r := rc.Rng
	rc.Cfg["version"] = []int{2, 3, 3}[r.Intn(3)]
	rc.Cfg["scen"] = r.Intn(5) // 0 network attacker, 1 mallory-vs-fresh-victim, 2 refresh-abort vs encrypted victim, 3 cross-session replay, 4 relay
	pol := polFor(rc.Cfg["version"])
	ta, tb := uint32(0x1000+r.Intn(1<<20)), uint32(0x200000+r.Intn(1<<20))
	tm := tb // Mallory speaks with Bob's instance tag (she controls the transport)
	if r.Chance(1, 3) {
		tm = uint32(0x400000 + r.Intn(1<<20))
	}
	rc.Parties = []PartyCfg{
		{KeyIdx: 0, Pol: pol, Peer: 1, Tag: ta, ErrHandler: r.Bool()},
		{KeyIdx: 1, Pol: pol, Peer: 0, Tag: tb, ErrHandler: r.Bool()},
		{KeyIdx: 2, Pol: pol, Peer: 0, Tag: tm, Ref: true},
	}
}

type c01World struct {
	rc    *RunCtx
	w     *World
	o     *Omni
	mal   *Party
	pubs  []map[string]int // per honest party: hex(pub) -> draw index
	seen  []int
	hits  int
	evals int
	lastS [2]PostState
	hadS  [2]bool
	acc   [2]*c01Accept
}

// c01Accept: the justified view of one accepted exchange.
type c01Accept struct {
	TheirG, OurG *big.Int
}

// validateAccept re-derives, from first principles, why party p may have entered the
// session it reports after call r.
func (cw *c01World) validateAccept(p *Party, r *CallResult) (*c01Accept, string) {
	var trig interface{}
	if raw, err := refotr.Dearmor(r.In); err == nil {
		trig, _ = refotr.ParseRaw(raw)
	}
	if trig == nil {
		return nil, "the call that established the session was not given a well-formed OTR message"
	}
	var draws []*big.Int
	for _, d := range p.Rand.Draws {
		if d.N == 40 {
			draws = append(draws, new(big.Int).SetBytes(d.Val))
		}
	}
	delivered := func(typ byte) []interface{} {
		var out []interface{}
		for _, x := range cw.w.Arch {
			if x.To != p.Idx || x.Delivered == 0 {
				continue
			}
			if m, ok := parseAKELenient(x.Bytes); ok && refotr.HeaderOf(m).Type == typ {
				out = append(out, m)
			}
		}
		return out
	}
	why := "no delivered DH value combined with an own exponent gives the reported SSID"
	switch t := trig.(type) {
	case *refotr.RevealSig:
		for _, c := range delivered(refotr.TypeDHCommit) {
			gx, err := refotr.OpenDHCommit(c.(*refotr.DHCommit), t.R)
			if err != nil {
				continue // not the commit this r opens (or out of range / hash mismatch)
			}
			for _, d := range draws {
				keys := refotr.DeriveAKEKeys(refotr.Exp(gx, d))
				if keys.SSID != r.Post.SSID {
					continue
				}
				own := refotr.Exp(refotr.G, d)
				pub, _, err := refotr.OpenXBlock(keys.C, keys.M1, keys.M2, t.EncSig, t.MAC, gx, own)
				if err != nil {
					why = "SSID matches but the Reveal-Signature does not verify: " + err.Error()
					continue
				}
				if hex.EncodeToString(refotr.Fingerprint(pub)) != r.Post.FP {
					why = "the exchange was signed by a different key than the one reported"
					continue
				}
				return &c01Accept{TheirG: gx, OurG: own}, ""
			}
		}
	case *refotr.Signature:
		for _, k := range delivered(refotr.TypeDHKey) {
			gy := k.(*refotr.DHKey).Gy
			if !refotr.InRange(gy) {
				continue
			}
			for _, d := range draws {
				keys := refotr.DeriveAKEKeys(refotr.Exp(gy, d))
				if keys.SSID != r.Post.SSID {
					continue
				}
				own := refotr.Exp(refotr.G, d)
				pub, _, err := refotr.OpenXBlock(keys.Cp, keys.M1p, keys.M2p, t.EncSig, t.MAC, gy, own)
				if err != nil {
					why = "SSID matches but the Signature message does not verify: " + err.Error()
					continue
				}
				if hex.EncodeToString(refotr.Fingerprint(pub)) != r.Post.FP {
					why = "the exchange was signed by a different key than the one reported"
					continue
				}
				return &c01Accept{TheirG: gy, OurG: own}, ""
			}
		}
	default:
		return nil, fmt.Sprintf("the session was established by a %T", trig)
	}
	return nil, why
}

func (cw *c01World) learnDraws() {
	for i := 0; i < 2; i++ {
		p := cw.w.P[i]
		for ; cw.seen[i] < len(p.Rand.Draws); cw.seen[i]++ {
			d := p.Rand.Draws[cw.seen[i]]
			if d.N == 40 {
				pub := refotr.Exp(refotr.G, new(big.Int).SetBytes(d.Val))
				cw.pubs[i][pub.Text(16)] = cw.seen[i]
			}
		}
	}
}

// lastFrom returns the most recent AKE message of the given type emitted by party v.
func (cw *c01World) lastFrom(v int, typ byte) (interface{}, []byte) {
	for i := len(cw.w.Arch) - 1; i >= 0; i-- {
		x := cw.w.Arch[i]
		if x.From != v || !x.Genuine || !refotr.IsArmored(x.Bytes) {
			continue
		}
		if raw, err := refotr.Dearmor(x.Bytes); err == nil && len(raw) > 2 && raw[2] == typ {
			if m, err := refotr.ParseRaw(raw); err == nil {
				return m, x.Bytes
			}
		}
	}
	return nil, nil
}

func c01Run(rc *RunCtx) *Violation {
	w := rc.NewWorld(rc.Parties)
	o := NewOmni(w)
	o.Off[2] = true
	cw := &c01World{rc: rc, w: w, o: o, mal: w.P[2], pubs: []map[string]int{{}, {}}, seen: []int{0, 0}}
	mal := cw.mal
	mal.RefAuto = false
	var viol *Violation
	fpOf := []string{keyFP(0), keyFP(1), keyFP(2)}
	kinds := ""

	// per-call oracle on the honest parties
	w.Observers = append(w.Observers, func(p *Party, r *CallResult) {
		if p.Idx > 1 || viol != nil {
			return
		}
		cw.learnDraws()
		if r.Kind == "recv" && (bytes.HasPrefix(r.In, []byte("?OTR:AAMR")) || bytes.HasPrefix(r.In, []byte("?OTR:AAIR")) || bytes.HasPrefix(r.In, []byte("?OTR:AAMS")) || bytes.HasPrefix(r.In, []byte("?OTR:AAIS"))) {
			cw.evals++
		}
		i := p.Idx
		est := r.HasEvent("sec", "GoneSecure") || r.HasEvent("sec", "StillSecure")
		if est {
			// 1. accept-time validation, independent of any state machine: from the party's own
			// exponent (known through SimRand) and the messages it was actually given there must be
			// a DH value, in range, that yields the reported SSID, and the message that triggered the
			// transition must carry a valid MAC and a valid signature by the reported key over
			// exactly these two DH values
			acc, why := cw.validateAccept(p, r)
			if acc == nil {
				viol = rc.Viol("accept.unverified", fmt.Sprintf("%s entered a session (ssid %x, peer key %.8s) that cannot be justified from the messages it received: %s", p.Name, r.Post.SSID, r.Post.FP, why),
					map[string]string{"kind": stripDigits(why)})
				return
			}
			cw.acc[i] = acc
			sp := acc
			// 2. no impersonation: a session reporting honest Q's key must be built on Q's own current exchange value
			q := 1 - i
			if r.Post.FP == fpOf[q] {
				// Q's signature over P's fresh DH value was verified (by the shadow too), so the
				// exchange cannot be a replay; what remains to be shown is that the secret is shared
				// with Q and nobody else: the peer value must be one Q itself drew
				_, ok := cw.pubs[q][sp.TheirG.Text(16)]
				if !ok {
					kind := "foreign-dh-value"
					viol = rc.Viol("impersonation", fmt.Sprintf("%s reports %s's key but the session secret was computed from a DH value that is not %s's current exchange value (%s)", p.Name, w.P[q].Name, w.P[q].Name, kind),
						map[string]string{"kind": kind})
					return
				}
			} else if r.Post.FP != fpOf[2] {
				viol = rc.Viol("accept.unknown-key", fmt.Sprintf("%s reports a peer key %.8s that belongs to nobody", p.Name, r.Post.FP), nil)
				return
			}
			cw.lastS[i], cw.hadS[i] = r.Post, true
		} else if r.Post.Enc && cw.hadS[i] {
			// 3. stability while encrypted without a new establishment
			if r.Post.SSID != cw.lastS[i].SSID || r.Post.FP != cw.lastS[i].FP || r.Post.HL != cw.lastS[i].HL {
				viol = rc.Viol("stability", fmt.Sprintf("%s #%d %s: while staying encrypted without a new session the reported identity changed: ssid %x->%x key %.8s->%.8s highlight %d->%d",
					p.Name, r.Seq, r.Kind, cw.lastS[i].SSID, r.Post.SSID, cw.lastS[i].FP, r.Post.FP, cw.lastS[i].HL, r.Post.HL), map[string]string{"what": "ssid/key"})
				return
			}
		}
		if !r.Post.Enc {
			cw.hadS[i] = false
		}
		if r.Post.Enc && !est && !cw.hadS[i] {
			viol = rc.Viol("accept.silent", fmt.Sprintf("%s became encrypted without a security event", p.Name), nil)
		}
	})

	// scenario preamble
	scen := rc.Cfg["scen"]
	if scen == 2 || scen == 3 {
		if !w.Handshake(0) {
			return rc.Viol("setup.handshake", "AKE did not complete", nil)
		}
		for i := 0; i < 2; i++ {
			r := w.P[i].Send(w.GenText(w.P[i], 2, 0))
			w.Enqueue(w.P[i], r)
			w.Drain(100)
		}
		if scen == 3 {
			// end the first session on both sides; its messages stay in the archive
			r := w.P[0].End()
			w.Enqueue(w.P[0], r)
			w.Drain(100)
			w.P[1].End()
		}
		w.Tick(tickDur[3])
	}
	if viol != nil {
		return viol
	}
	// Mallory's protocol engine per victim
	var mp [2]*refotr.Peer
	newMP := func(v int) *refotr.Peer {
		ver := uint16(rc.Cfg["version"])
		tag := rc.Parties[2].Tag
		pp := refotr.NewPeer(ver, &mal.Key.PrivateKey, mal.Rand, tag)
		return pp
	}
	malSend := func(v int, b []byte, note string) {
		if b == nil {
			return
		}
		y := w.Put(2, v, b, false, -1, -1, "mallory:"+note)
		y.Class = note
		w.Fault("mallory:" + note)
		cw.hits++
	}
	bounds := []*big.Int{big.NewInt(0), big.NewInt(1), new(big.Int).Sub(refotr.P, big.NewInt(1)), new(big.Int).Set(refotr.P), new(big.Int).Add(refotr.P, big.NewInt(1)), big.NewInt(2), new(big.Int).Sub(refotr.P, big.NewInt(2))}
	victimPeerKey := func(v int) []byte { return refotr.PubKeyBytes(&w.P[1-v].Key.PrivateKey.PublicKey) }

	var degen [2]*big.Int // Mallory's own DH value if it is a degenerate/boundary one (she then knows s without an exponent)
	sharedS := func(v int, peerVal *big.Int) *big.Int {
		m := mp[v]
		d := degen[v]
		if d == nil {
			return refotr.Exp(peerVal, m.X)
		}
		dm := new(big.Int).Mod(d, refotr.P)
		switch {
		case dm.Sign() == 0:
			return big.NewInt(0)
		case dm.Cmp(big.NewInt(1)) == 0:
			return big.NewInt(1)
		case dm.Cmp(new(big.Int).Sub(refotr.P, big.NewInt(1))) == 0:
			return big.NewInt(1) // (-1)^x: right whenever the victim's exponent is even
		default:
			return new(big.Int).Set(peerVal) // g^x for the value 2 (and a guess for p-2)
		}
	}
	malAct := func(s Step) {
		v := s.A % 2
		if mp[v] == nil {
			mp[v] = newMP(v)
		}
		m := mp[v]
		hdr := func(t byte) refotr.Header {
			h := refotr.Header{Version: m.Version, Type: t}
			if m.Version >= 3 {
				h.SenderTag, h.ReceiverTag = m.OurTag, w.P[v].Conv.GetOurInstanceTag()
			}
			return h
		}
		switch s.B % 8 {
		case 0: // query: the victim becomes the initiator towards Mallory
			malSend(v, m.Query(), "query")
		case 1: // honest DH-Commit
			degen[v] = nil
			c, err := m.StartAKE()
			if err == nil {
				malSend(v, c, "commit")
			}
		case 2: // commit to one g^x, later reveal another
			degen[v] = nil
			if _, err := m.StartAKE(); err == nil {
				other, _ := refotr.NewDHPair(mal.Rand)
				m.OurCommit.HashGx = sha256sum(refotr.MPIBytes(other.Pub))
				malSend(v, refotr.Armor(m.OurCommit.Raw()), "commit-mismatch")
			}
		case 3: // answer the victim's DH-Commit with a DH-Key (honest, degenerate or boundary)
			cm, raw := cw.lastFrom(v, refotr.TypeDHCommit)
			if cm == nil {
				return
			}
			if s.C%3 == 0 {
				degen[v] = nil
				out, err := m.Receive(raw)
				if err == nil && len(out) > 0 {
					malSend(v, out[0], "dhkey")
				}
				return
			}
			// degenerate value: Mallory cannot know x, but for these values she knows s anyway
			gy := bounds[(s.C/3)%len(bounds)]
			k := &refotr.DHKey{Header: hdr(refotr.TypeDHKey), Gy: gy}
			m.AuthState = refotr.AuthAwaitingRevealSig
			m.PeerCommit = cm.(*refotr.DHCommit)
			m.X, m.Gx = big.NewInt(1), gy
			degen[v] = gy
			malSend(v, refotr.Armor(k.Raw()), "dhkey-"+gy.Text(16)[:min2(6, len(gy.Text(16)))])
		case 4: // answer the victim's DH-Key with a Reveal-Signature
			km, raw := cw.lastFrom(v, refotr.TypeDHKey)
			if km == nil || m.AuthState != refotr.AuthAwaitingDHKey {
				return
			}
			gy := km.(*refotr.DHKey).Gy
			c4 := s.C % 4
			if degen[v] != nil && c4 == 0 {
				c4 = 4 // honest X block, but the shared secret comes from her degenerate value
			}
			switch c4 {
			case 0:
				out, err := m.Receive(raw)
				if err == nil && len(out) > 0 {
					malSend(v, out[0], "revealsig")
				}
			case 4:
				keys := refotr.DeriveAKEKeys(sharedS(v, gy))
				xb, err := refotr.MakeXBlock(m.Priv, mal.Rand, keys.M1, m.Gx, gy, 1)
				if err != nil {
					return
				}
				enc, mac := refotr.SealXBlock(keys.C, keys.M2, xb)
				rs := &refotr.RevealSig{Header: hdr(refotr.TypeRevealSig), R: m.R, EncSig: enc, MAC: mac}
				m.AKE, m.TheirG, m.AuthState = keys, gy, refotr.AuthAwaitingSig
				malSend(v, refotr.Armor(rs.Raw()), "revealsig-degenerate")
			default:
				keys := refotr.DeriveAKEKeys(sharedS(v, gy))
				pk := victimPeerKey(v) // advertise the key of the victim's real peer
				mm := refotr.AKEM(keys.M1, m.Gx, gy, pk, 1)
				sig, _ := refotr.Sign(m.Priv, mal.Rand, mm) // signed with Mallory's key
				if s.C%4 == 2 {
					sig = bytes.Repeat([]byte{0x11}, 40)
				}
				if s.C%4 == 3 { // own key, but the signature covers other DH values
					pk = refotr.PubKeyBytes(&m.Priv.PublicKey)
					sig, _ = refotr.Sign(m.Priv, mal.Rand, refotr.AKEM(keys.M1, gy, m.Gx, pk, 1))
				}
				xb := append(refotr.PutInt(append([]byte{}, pk...), 1), sig...)
				enc, mac := refotr.SealXBlock(keys.C, keys.M2, xb)
				rs := &refotr.RevealSig{Header: hdr(refotr.TypeRevealSig), R: m.R, EncSig: enc, MAC: mac}
				malSend(v, refotr.Armor(rs.Raw()), fmt.Sprintf("revealsig-forged%d", s.C%4))
			}
		case 5: // answer the victim's Reveal-Signature with a Signature
			rm, raw := cw.lastFrom(v, refotr.TypeRevealSig)
			if rm == nil || m.AuthState != refotr.AuthAwaitingRevealSig || m.PeerCommit == nil {
				return
			}
			c5 := s.C % 3
			if degen[v] != nil && c5 == 0 {
				c5 = 3
			}
			switch c5 {
			case 0:
				out, err := m.Receive(raw)
				if err == nil && len(out) > 0 {
					malSend(v, out[0], "signature")
				}
			case 3:
				rsm := rm.(*refotr.RevealSig)
				gx, err := refotr.OpenDHCommit(m.PeerCommit, rsm.R)
				if err != nil {
					return
				}
				keys := refotr.DeriveAKEKeys(sharedS(v, gx))
				xa, err := refotr.MakeXBlock(m.Priv, mal.Rand, keys.M1p, m.Gx, gx, 1)
				if err != nil {
					return
				}
				enc, mac := refotr.SealXBlock(keys.Cp, keys.M2p, xa)
				sg := &refotr.Signature{Header: hdr(refotr.TypeSignature), EncSig: enc, MAC: mac}
				malSend(v, refotr.Armor(sg.Raw()), "signature-degenerate")
			default:
				rsm := rm.(*refotr.RevealSig)
				gx, err := refotr.OpenDHCommit(m.PeerCommit, rsm.R)
				if err != nil {
					return
				}
				keys := refotr.DeriveAKEKeys(sharedS(v, gx))
				pk := victimPeerKey(v)
				sig, _ := refotr.Sign(m.Priv, mal.Rand, refotr.AKEM(keys.M1p, m.Gx, gx, pk, 1))
				if s.C%3 == 2 {
					sig = bytes.Repeat([]byte{0x22}, 40)
				}
				xa := append(refotr.PutInt(append([]byte{}, pk...), 1), sig...)
				enc, mac := refotr.SealXBlock(keys.Cp, keys.M2p, xa)
				sg := &refotr.Signature{Header: hdr(refotr.TypeSignature), EncSig: enc, MAC: mac}
				malSend(v, refotr.Armor(sg.Raw()), fmt.Sprintf("signature-forged%d", s.C%3))
			}
		case 6: // relay: hand the victim's latest AKE message to the other honest party unchanged
			for _, t := range []byte{refotr.TypeSignature, refotr.TypeRevealSig, refotr.TypeDHKey, refotr.TypeDHCommit} {
				if _, raw := cw.lastFrom(v, t); raw != nil {
					y := w.Put(v, 1-v, raw, false, -1, -1, "mallory:relay")
					y.Class = "relay"
					w.Fault("mallory:relay")
					cw.hits++
					break
				}
			}
		case 7: // DH-Commit whose committed value is degenerate
			gx := bounds[s.C%len(bounds)]
			r16 := make([]byte, 16)
			_, _ = mal.Rand.Read(r16)
			c := refotr.MakeDHCommit(hdr(refotr.TypeDHCommit), gx, r16)
			m.X, m.Gx, m.R, m.OurCommit = big.NewInt(1), gx, r16, c
			degen[v] = gx
			m.AuthState = refotr.AuthAwaitingDHKey
			malSend(v, refotr.Armor(c.Raw()), "commit-degenerate")
		}
	}

	started := false
	gen := func() (Step, bool) {
		r := rc.Rng
		tot := w.TotalInFlight()
		if !started {
			started = true
			switch scen {
			case 0, 3, 4:
				return Step{K: "query", A: r.Intn(2)}, true
			case 1:
				return Step{K: "mal", A: r.Intn(2), B: []int{0, 1, 2, 7}[r.Intn(4)], C: r.Intn(64)}, true
			default:
				return Step{K: "mal", A: r.Intn(2), B: []int{0, 1, 2, 7}[r.Intn(4)], C: r.Intn(64)}, true
			}
		}
		// deliver drop dup mutate replay mal relay tick
		wt := []int{16, 2, 3, 6, 3, 0, 0, 1}
		switch scen {
		case 1, 2:
			wt = []int{14, 1, 1, 2, 1, 12, 1, 1}
		case 3:
			wt = []int{14, 1, 2, 2, 10, 0, 0, 1}
		case 4:
			wt = []int{12, 2, 1, 1, 1, 6, 8, 1}
		}
		if tot == 0 {
			wt[0], wt[1], wt[2], wt[3] = 0, 0, 0, 0
			if scen == 0 || scen == 3 {
				if r.Chance(1, 3) {
					return Step{}, false
				}
			}
		}
		anyLink := func() (int, int) {
			var ls [][2]int
			for i := range w.Links {
				for j := range w.Links[i] {
					if len(w.Links[i][j]) > 0 {
						ls = append(ls, [2]int{i, j})
					}
				}
			}
			if len(ls) == 0 {
				return 0, 1
			}
			l := ls[r.Intn(len(ls))]
			return l[0], l[1]
		}
		switch r.Pick(wt) {
		case 0:
			a, b := anyLink()
			idx := 0
			if r.Chance(1, 5) {
				idx = r.Intn(3)
			}
			return Step{K: "deliver", A: a, B: b, C: idx}, true
		case 1:
			a, b := anyLink()
			return Step{K: "drop", A: a, B: b, C: r.Intn(2)}, true
		case 2:
			a, b := anyLink()
			return Step{K: "dup", A: a, B: b, C: r.Intn(2)}, true
		case 3:
			a, b := anyLink()
			return Step{K: "mutate", A: a, B: b, C: r.Intn(len(akeMutNames)), D: r.Intn(1 << 16)}, true
		case 4:
			return Step{K: "replay", A: r.Intn(2), B: r.Intn(40)}, true
		case 5:
			// mostly answer what a victim said last, like a live peer would
			if r.Chance(3, 4) {
				for i := len(w.Arch) - 1; i >= 0 && i > len(w.Arch)-6; i-- {
					x := w.Arch[i]
					if x.From > 1 || !x.Genuine || !refotr.IsArmored(x.Bytes) {
						continue
					}
					if raw, err := refotr.Dearmor(x.Bytes); err == nil && len(raw) > 2 {
						switch raw[2] {
						case refotr.TypeDHCommit:
							return Step{K: "mal", A: x.From, B: 3, C: r.Intn(64)}, true
						case refotr.TypeDHKey:
							return Step{K: "mal", A: x.From, B: 4, C: r.Intn(64)}, true
						case refotr.TypeRevealSig:
							return Step{K: "mal", A: x.From, B: 5, C: r.Intn(64)}, true
						}
					}
					break
				}
			}
			return Step{K: "mal", A: r.Intn(2), B: r.Intn(8), C: r.Intn(64)}, true
		case 6:
			return Step{K: "mal", A: r.Intn(2), B: 6}, true
		default:
			return Step{K: "tick", A: []int{1, 1, 2, 3}[r.Intn(4)]}, true
		}
	}
	for {
		s, ok := rc.NextStep(gen)
		if !ok {
			break
		}
		n := len(w.P)
		switch s.K {
		case "mal":
			malAct(s)
		case "mutate":
			l := w.Links[s.A%n][s.B%n]
			if len(l) == 0 {
				break
			}
			x := l[0]
			mu := MutateAny(o, x.From, x.Bytes, s.C, s.D)
			x.Bytes, x.Genuine, x.Class, x.Note = mu.Bytes, false, mu.Class, "mutated:"+mu.Class
			w.Fault("mutate:" + mu.Class)
			cw.hits++
		case "replay":
			to := s.A % 2
			var cands []*Wire
			for _, x := range w.Arch {
				if x.To == to && refotr.IsArmored(x.Bytes) && !dataTyped(x.Bytes) {
					cands = append(cands, x)
				}
			}
			if len(cands) == 0 {
				break
			}
			x := cands[s.B%len(cands)]
			y := w.Put(x.From, to, x.Bytes, false, x.ID, -1, "replay")
			y.Class = "replay"
			w.Fault("replay")
			cw.hits++
		case "deliver":
			if s.A%n == 2 || s.B%n == 2 {
				// links from/to Mallory: deliver to honest parties only
				if s.B%n == 2 {
					w.Take(s.A%n, 2, s.C) // Mallory reads everything anyway
					break
				}
			}
			w.Exec(s)
		default:
			w.Exec(s)
		}
		kinds += s.K[:2] + fmt.Sprint(s.A%3)
		if viol != nil {
			return viol
		}
	}
	// the attacker stops; honest traffic A<->B is delivered in order
	for i := range w.Links {
		for j := range w.Links[i] {
			if i == 2 || j == 2 {
				w.Links[i][j] = nil
			}
		}
	}
	w.Drain(200)
	if viol != nil {
		return viol
	}
	// 4. agreement when both ends are encrypted from the same exchange
	a, b := w.P[0], w.P[1]
	if a.Conv.IsEncrypted() && b.Conv.IsEncrypted() && cw.acc[0] != nil && cw.acc[1] != nil &&
		cw.acc[0].TheirG.Cmp(cw.acc[1].OurG) == 0 && cw.acc[1].TheirG.Cmp(cw.acc[0].OurG) == 0 {
		pa, pb := a.post(), b.post()
		if pa.SSID != pb.SSID || pa.HL == pb.HL || pa.FP != fpOf[1] || pb.FP != fpOf[0] {
			return rc.Viol("agreement", fmt.Sprintf("same exchange but A: ssid %x hl %d key %.8s; B: ssid %x hl %d key %.8s", pa.SSID, pa.HL, pa.FP, pb.SSID, pb.HL, pb.FP), nil)
		}
		for i := 0; i < 2; i++ {
			p := w.P[i]
			txt := w.GenText(p, 2, 0)
			r := p.Send(txt)
			w.Enqueue(p, r)
			w.Drain(200)
			got := w.Got[1-i]
			if len(got) == 0 || !bytes.Equal(got[len(got)-1], txt) {
				return rc.Viol("agreement.probe", fmt.Sprintf("both ends share the exchange but the probe from %s was not delivered", p.Name), nil)
			}
		}
		rc.Probe("agreed_sessions")
	}
	if viol != nil {
		return viol
	}
	rc.Stats.Nontrivial = cw.hits >= 2 && cw.evals >= 1
	rc.Stats.Sig = fmt.Sprintf("v%d s%d %s", rc.Cfg["version"], scen, kinds)
	rc.Probe(fmt.Sprintf("scenario_%d", scen))
	rc.ProbeN("attacker_actions", cw.hits)
	rc.ProbeN("revealsig_or_signature_evaluated", cw.evals)
	for i := 0; i < 2; i++ {
		if w.P[i].Conv.IsEncrypted() && w.P[i].post().FP == fpOf[2] {
			rc.Probe("sessions_with_mallory_as_legit_peer")
		}
	}
	return nil
}

func sha256sum(b []byte) []byte { h := sha256.Sum256(b); return h[:] }

func min2(a, b int) int {
	if a < b {
		return a
	}
	return b
}
