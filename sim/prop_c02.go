package sim

import (
	"bytes"
	"fmt"
	"os"

	"verifsim/refotr"
)

// C02 – only authentic, unmodified data messages of this session are delivered.

func init() {
	Register(&PropDef{
		ID: "C02", Title: "only authentic data messages of this session are delivered",
		Config: awConfig, Run: c02Run, MaxSteps: 90,
		Rule: "runs = encrypted pair after a PRNG-chosen traffic prefix (rotations, optional SMP, optional second session); an attacker mutates data messages in flight (22 structure-aware mutators: every header/body field, bit flips, truncation/extension, armour damage, re-MAC with every disclosed/retired/foreign MAC key, fresh forgeries), replays recorded messages of this and earlier sessions and injects clear text; " +
			"non-trivial = at least 3 attacked messages with a changed authenticated range were delivered; distinct = distinct (config, step sequence) signatures",
		Assume: []string{"provenance is decided by the harness: it knows which bytes each party emitted, what the attacker changed, and (through the shadow reference) which session a message belongs to",
			"mutations confined to the unauthenticated tail may be accepted but may only deliver the genuine text"},
	})
}

func dataTyped(b []byte) bool {
	raw, err := refotr.Dearmor(b)
	if err != nil {
		// cannot be de-armoured strictly; look at the lenient prefix the way a receiver would
		return bytes.HasPrefix(b, []byte("?OTR:AAMD")) || bytes.HasPrefix(b, []byte("?OTR:AAID"))
	}
	return len(raw) >= 3 && raw[2] == refotr.TypeData
}

// c02Check is the per-delivery oracle (also used by C05/C06 worlds as a by-product).
func (aw *AW) c02Check(p *Party, r *CallResult) *Violation {
	rc, w, o := aw.rc, aw.w, aw.o
	x := w.CurWire
	if r.Kind != "recv" || x == nil {
		return nil
	}
	peer := w.P[p.Cfg.Peer]
	if !bytes.HasPrefix(x.Bytes, []byte("?OTR")) {
		// clear text injected while a session exists must be flagged
		if r.Plain != nil && r.Post.Enc && !r.HasEvent("msg", "ReceivedMessageUnencrypted") {
			return rc.Viol("unencrypted.unflagged", fmt.Sprintf("%s returned clear text %s in an encrypted session without a received-unencrypted event", p.Name, short(r.Plain)), nil)
		}
		return nil
	}
	org := aw.origin(x)
	info := o.Find(org.Bytes)
	authentic := false
	why := "not derived from a genuine data message"
	if info != nil && info.Data != nil && info.From == peer.Idx {
		why = "authenticated range or MAC changed by the attacker"
		if !x.AuthChanged {
			// same session? compare the sender's session of the message with the receiver's current one
			ss, rs := o.Sh[peer.Idx], o.Sh[p.Idx]
			why = "message belongs to another session"
			if info.Sess >= 0 && info.Sess < len(ss.Sess) && rs.cur() != nil && ss.Sess[info.Sess].SSID == rs.cur().SSID {
				authentic = true
			} else if p.Idx < 2 {
				// The shadows can lose a party (they follow the specification through the known
				// DH-Commit collision defect, the real party does not). When a shadow's session is
				// not the session the real party reports, "same session" is decided on what the two
				// real parties reported: the sender's SSID when it emitted the message and the
				// receiver's SSID before this call (agreement on SSIDs as such is C01's business).
				sent, got := aw.posts[info.Call], aw.prevPost[p.Idx]
				lostS := info.Sess < 0 || info.Sess >= len(ss.Sess) || ss.Sess[info.Sess].SSID != sent.SSID
				lostR := rs.cur() == nil || rs.cur().SSID != got.SSID
				// a message is emitted in the session the sender is in after the call (a text queued
				// for the end of the key exchange) or was in before it (the disconnect notice of End)
				sentEnc := sent.Enc || (aw.pres[info.Call].Enc && aw.pres[info.Call].SSID == sent.SSID)
				if (lostS || lostR) && sentEnc && got.Enc && sent.SSID == got.SSID && sent.SSID != [8]byte{} {
					authentic = true
					rc.Probe("session_decided_on_reported_ssid")
					if os.Getenv("VERIF_VERBOSE") != "" {
						fmt.Printf("C02DBG call #%d: fallback lostS=%v lostR=%v info.Sess=%d senderSessions=%d sent.SSID=%x got.SSID=%x shadowRecvCur=%v\n", r.Seq, lostS, lostR, info.Sess, len(ss.Sess), sent.SSID, got.SSID, rs.cur() != nil)
					}
				}
			}
		}
	}
	cls := x.Class
	if cls == "" {
		cls = x.Note
	}
	if r.Plain != nil {
		if !authentic {
			return rc.Viol("unauthentic.delivered", fmt.Sprintf("%s.Receive returned plaintext %s for a message that is not an authentic message of this session (%s; attacker action: %s)", p.Name, short(r.Plain), why, cls),
				map[string]string{"class": cls, "why": why})
		}
		if !info.OK {
			// the shadow lost track of this sender (it disagreed with the real party about
			// an earlier tolerated message); fall back to the weaker provenance rule
			rc.Probe("shadow_out_of_sync_fallback")
			found := false
			for _, t := range peer.SentText {
				found = found || bytes.Equal(t, r.Plain) || bytes.Equal(append([]byte("[resent] "), t...), r.Plain)
			}
			if !found {
				return rc.Viol("altered.delivered", fmt.Sprintf("%s.Receive returned %s, which the peer never passed to Send", p.Name, short(r.Plain)), map[string]string{"class": cls})
			}
		} else if given := sentBy(peer, r.Plain); !given {
			return rc.Viol("altered.delivered", fmt.Sprintf("%s.Receive returned %s, which is not byte-identical to any text the peer passed to Send (the message carried %s)", p.Name, short(r.Plain), short(info.Text)), map[string]string{"class": cls, "kind": "not-a-sent-text"})
		} else if !bytes.Equal(r.Plain, info.Text) {
			return rc.Viol("altered.delivered", fmt.Sprintf("%s.Receive returned %s, the peer's Send was given %s", p.Name, short(r.Plain), short(info.Text)), map[string]string{"class": cls})
		}
	}
	if !authentic && dataTyped(x.Bytes) {
		if ev := actedEvents(r); len(ev) > 0 {
			return rc.Viol("unauthentic.acted", fmt.Sprintf("%s acted on the TLVs of an unauthentic data message (%s; %s): events %v", p.Name, why, cls, ev), map[string]string{"class": cls, "event": ev[0]})
		}
		if hasDataOut(r) {
			return rc.Viol("unauthentic.answered", fmt.Sprintf("%s answered an unauthentic data message (%s; %s) with a data message", p.Name, why, cls), map[string]string{"class": cls})
		}
		if x.AuthChanged {
			rc.Probe("attacked_delivered")
			rc.Probe("attacked_" + cls)
		}
	}
	return nil
}

func c02Run(rc *RunCtx) *Violation {
	aw, v := newAW(rc)
	if v != nil {
		return v
	}
	var viol *Violation
	attackedDelivered := 0
	aw.w.Observers = append(aw.w.Observers, func(p *Party, r *CallResult) {
		if viol == nil {
			viol = aw.c02Check(p, r)
		}
		if x := aw.w.CurWire; x != nil && !x.Genuine && x.AuthChanged {
			attackedDelivered++
		}
	})
	// sendA sendB deliver drop dup tick mutate replay plain resession smpstart smpanswer extrakey deliverOOO
	wt := []int{8, 8, 14, 1, 1, 1, 14, 3, 1, 0, 0, 0, 1, 1}
	if rc.Cfg["smp"] == 1 {
		wt[10], wt[11] = 1, 6
	}
	if rc.Cfg["resession"] == 1 {
		wt[9] = 1
	}
	for {
		s, ok := rc.NextStep(func() (Step, bool) { return aw.gen(wt) })
		if !ok {
			break
		}
		aw.exec(s)
		aw.kinds += s.K[:2]
		if viol != nil {
			return viol
		}
	}
	aw.w.Drain(2000)
	if viol != nil {
		return viol
	}
	rc.Stats.Nontrivial = attackedDelivered >= 3
	rc.Stats.Sig = fmt.Sprintf("v%d p%d %s", rc.Cfg["version"], rc.Cfg["prefix"], aw.kinds)
	rc.ProbeN("mutations", aw.mutated)
	rc.ProbeN("replays", aw.replayed)
	return nil
}

// sentBy reports whether text is exactly a text party p was given by its user (or its marked resend).
func sentBy(p *Party, text []byte) bool {
	for _, t := range p.SentText {
		if bytes.Equal(t, text) || bytes.Equal(append([]byte("[resent] "), t...), text) {
			return true
		}
	}
	return false
}
