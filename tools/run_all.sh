#!/bin/bash
# Runs every claimed check once (quick by default) against /repo and reports exit codes.
# usage: tools/run_all.sh [quick|thorough]
cd "$(dirname "$0")/.."
tier=${1:-quick}
rc=0
for p in $(python3 -c "import json;print(' '.join(c['property_id'] for c in json.load(open('MANIFEST.json'))['checks']))"); do
  start=$(date +%s)
  out=$(./check $p $tier 2>&1); e=$?
  echo "$p exit=$e $(( $(date +%s)-start ))s :: $(echo "$out" | tail -1 | cut -c1-150)"
  [ $e -ne 0 ] && { rc=1; echo "$out" | grep -E "^(VIOLATION|violation|harness)" | head -5; }
done
exit $rc
