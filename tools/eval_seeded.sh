#!/bin/bash
# Confirms a seeded change (patch + demonstration) and runs checks against it.
# usage: tools/eval_seeded.sh <dir with patch.diff, demo_test.go, notes.md> <id> <property> [more properties...]
# Works on a scratch copy of /repo outside /repo and /verif, removed afterwards.
set -u
src="$(cd "$1" && pwd)"; id="$2"; shift 2; props="$@"
V="$(cd "$(dirname "$0")/.." && pwd)"
export GOFLAGS=-mod=mod GOPROXY=off GOSUMDB=off GOTOOLCHAIN=local
S=/tmp/ev-$id-$$
rm -rf "$S"; cp -r /repo "$S"; cd "$S" || exit 2
git checkout -q -- . ; git clean -fdq
res=""
if ! git apply --check "$src/patch.diff" 2>/dev/null; then echo "$id: patch does not apply to /repo HEAD"; rm -rf "$S"; exit 3; fi
git apply "$src/patch.diff"
suite=$(go test -vet=off -count=1 ./... 2>&1 | grep -c '^ok')
cp "$src/demo_test.go" ./zz_seeded_demo_test.go
go test -vet=off -count=1 -run 'Test_Seeded' . >/tmp/ev-$id-with.log 2>&1; with=$?
git apply -R "$src/patch.diff"
go test -vet=off -count=1 -run 'Test_Seeded' . >/tmp/ev-$id-without.log 2>&1; without=$?
rm -f zz_seeded_demo_test.go
git apply "$src/patch.diff"
echo "$id: suite_ok_packages=$suite demo_with_change_exit=$with demo_without_change_exit=$without"
confirmed=false
if [ "$suite" = "2" ] && [ $with -ne 0 ] && [ $without -eq 0 ]; then confirmed=true; fi
mkdir -p "$V/seeded/$id"
if [ "$src" != "$V/seeded/$id" ]; then cp "$src/patch.diff" "$src/demo_test.go" "$V/seeded/$id/" ; cp "$src/notes.md" "$V/seeded/$id/notes.md" 2>/dev/null; fi
detected=""
for p in $props; do
  out=$(cd "$V" && VERIF_REPO="$S" VERIF_BUDGET_S=${SEED_BUDGET_S:-30} ./check $p quick 2>&1); e=$?
  # what the seeded SEARCH found, and what the regression corpus found, are kept apart: the corpus
  # holds the trace that caught this very change earlier, so a corpus hit says nothing about the search
  rule=$(echo "$out" | grep '^violation:' | grep -v 'regression corpus' | head -1 | sed 's/^violation: //' | cut -c1-200)
  crule=$(echo "$out" | grep '^violation:' | grep 'regression corpus' | head -1 | sed 's/^violation: //' | cut -c1-200)
  echo "  $p exit=$e search=[$rule] corpus=[$crule]"
  detected="$detected{\"property\":\"$p\",\"exit\":$e,\"first\":$(python3 -c "import json,sys;print(json.dumps(sys.argv[1]))" "$rule"),\"by_corpus\":$(python3 -c "import json,sys;print(json.dumps(sys.argv[1]))" "$crule")},"
done
python3 - "$V/seeded/$id/meta.json" "$id" "$confirmed" "$suite" "$with" "$without" "[${detected%,}]" "$props" <<'PY'
import json,sys,os
path,id_,conf,suite,w,wo,det,props=sys.argv[1:9]
meta={}
if os.path.exists(path): meta=json.load(open(path))
meta.update({"id":id_,"breaks_property":id_.split('-')[0],"confirmed":conf=="true",
 "confirmation":{"existing_suite_packages_ok_with_change":int(suite),"demo_exit_with_change":int(w),"demo_exit_without_change":int(wo),
   "how":"scratch copy of /repo HEAD under /tmp: git apply patch; go test -vet=off -count=1 ./... (without demo); demo with change; git apply -R; demo without change"},
 "checks_run":json.loads(det),"origin":"independent sub-agent given only the property text and a scratch worktree"})
json.dump(meta,open(path,"w"),indent=1)
PY
rm -rf "$S" /tmp/ev-$id-with.log /tmp/ev-$id-without.log
