#!/usr/bin/env python3
"""Regenerates the seeded-change table in DESIGN.md (Appendix C) from /verif/seeded/*/meta.json."""
import json, glob, os, re
V = os.path.dirname(os.path.dirname(os.path.abspath(__file__)))
rows = []
for f in sorted(glob.glob(os.path.join(V, "seeded", "*", "meta.json"))):
    m = json.load(open(f))
    det = []
    for c in m.get("checks_run", []):
        tag = "DETECTED" if c["exit"] == 1 else ("missed" if c["exit"] == 0 else "error")
        first = c.get("first", "")
        rule = re.sub(r" steps=.*", "", first.replace("rule=", ""))
        how = ""
        if tag == "DETECTED":
            by = []
            if rule:
                by.append("search: " + rule)
            if c.get("by_corpus"):
                by.append("corpus trace")
            how = " (" + "; ".join(by) + ")" if by else ""
        det.append("%s: %s%s" % (c["property"], tag, how))
    rows.append("| %s | %s | %s | %s | %s |" % (m["id"], "yes" if m.get("confirmed") else "NO", m.get("needs", "").replace("|", "/"), "; ".join(det), m.get("remark", "")))
table = "| id | confirmed | what it needs to manifest | checks run (quick, default budget) | remark |\n|---|---|---|---|---|\n" + "\n".join(rows)
p = os.path.join(V, "DESIGN.md")
s = open(p).read()
if "SEEDED_TABLE" in s:
    s = s.replace("SEEDED_TABLE", "<!-- seeded-table-begin -->\n" + table + "\n<!-- seeded-table-end -->")
else:
    s = re.sub(r"<!-- seeded-table-begin -->.*?<!-- seeded-table-end -->", "<!-- seeded-table-begin -->\n" + table + "\n<!-- seeded-table-end -->", s, flags=re.S)
open(p, "w").write(s)
print(table)
