#!/bin/bash
# Adds minimised violating traces to the regression corpus (/verif/corpus/<property>/).
#   tools/mkcorpus.sh seeded <id> <property>...     trace(s) that catch seeded change /verif/seeded/<id>/patch.diff
#   tools/mkcorpus.sh patch <name> <property>...    same, for a hand-resolved revert kept as corpus/patches/<name>.diff
#   tools/mkcorpus.sh revert <commit> <property>... trace(s) that catch the defect repaired by /repo commit <commit>
# A trace is kept only if it (1) violates on the changed scratch copy and (2) does NOT violate on /repo as it is.
# Scratch copies live under /tmp and are removed.
set -u
V="$(cd "$(dirname "$0")/.." && pwd)"
mode="$1"; what="$2"; shift 2
export GOFLAGS=-mod=mod GOPROXY=off GOSUMDB=off GOTOOLCHAIN=local
S=/tmp/mc-$$
rm -rf "$S"; cp -r /repo "$S"; git -C "$S" checkout -q -- . ; git -C "$S" clean -fdq
case "$mode" in
  seeded) git -C "$S" apply "$V/seeded/$what/patch.diff" || { echo "$what: patch does not apply"; rm -rf "$S"; exit 3; }; label="seeded-$what";;
  patch) git -C "$S" apply "$V/corpus/patches/$what.diff" || { echo "$what: patch does not apply"; rm -rf "$S"; exit 3; }; label="$what";;
  revert) git -C "$S" revert -n "$what" >/dev/null 2>&1 || { echo "$what: revert conflicts"; rm -rf "$S"; exit 3; }; label="fix-$what";;
  *) echo "usage"; exit 2;;
esac
( cd "$S" && go build ./... ) || { echo "$what: does not build"; rm -rf "$S"; exit 3; }
for p in "$@"; do
  rm -rf "$V/.build/scratch-out/replays"
  (cd "$V" && VERIF_REPO="$S" VERIF_BUDGET_S=${CORPUS_BUDGET_S:-30} ./check $p quick >/dev/null 2>&1)
  n=0
  for f in "$V"/.build/scratch-out/replays/$p-*.json; do
    [ -f "$f" ] || continue
    [ $n -ge 3 ] && break
    # must still violate on the changed copy when replayed alone, and must pass on the real tree
    (cd "$V" && VERIF_REPO="$S" ./check replay "$f" >/dev/null 2>&1); bad=$?
    (cd "$V" && ./check replay "$f" >/dev/null 2>&1); good=$?
    if [ $bad -ne 0 ] && [ $bad -ne 2 ] && [ $good -eq 0 ]; then
      n=$((n+1)); mkdir -p "$V/corpus/$p"
      python3 - "$f" "$V/corpus/$p/$label-$n.json" "$mode $what" <<'PY'
import json,sys
t=json.load(open(sys.argv[1])); t.pop('log',None); t['corpus_origin']=sys.argv[3]
json.dump(t,open(sys.argv[2],'w'),indent=1)
PY
    else
      echo "  $p: trace $(basename $f) not kept (changed copy exit=$bad, real tree exit=$good)"
    fi
  done
  echo "$label $p: kept $n trace(s)"
done
rm -rf "$S"
