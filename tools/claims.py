# Table of claims; executed by mkmanifest.py (claim(), NA, HOOK_COMMITS, NOTES).

HOOK_COMMITS = []
NOTES = ("All checks are one simulator binary (/verif/sim, built by ./check from /repo's working tree with go1.26.8). "
         "exit 0 = held on everything explored, 1 = VIOLATION line with replay file, 2 = harness/build trouble. "
         "Known findings are listed in /verif/known_findings.json and printed as KNOWN-FINDING lines.")

SIM = "deterministic simulation with fault injection (seeded scheduler, simulated network/clock/randomness, replayable minimised traces)"

claim("C04", SIM + "; oracle: per-direction sequence equality at every step and at quiescence",
      "Seeded exploration of interleavings of Send/deliver/tick/SMP/extra-key/fragment-size steps on two real Conversations over reliable FIFO links; "
      "after every step the texts returned are a prefix of the texts sent, at quiescence they are equal. Sampling, not enumeration: a clean batch is evidence, not proof.",
      "trusted: Go toolchain and stdlib, the harness (Party wrapper, SimNet FIFO); premise of the property (reliable FIFO, NUL-free non-empty texts) is built into the generator",
      "DESIGN.md section 5 C04")

claim("C07", SIM + "; oracle: bounded liveness to one common session at quiescence (SSID, highlight, fingerprints, probes)",
      "Seeded exploration of start patterns (A, B, both; query, whitespace tag, error restart, Send under require-encryption; fresh or refresh after >60 s) x policy pairs x interleavings of two FIFO queues with clock ticks; "
      "at quiescence both sides must be encrypted in one new common session, and probe texts must flow both ways. Known finding (DH-Commit collision deadlock) is matched by shape and reported as KNOWN-FINDING.",
      "trusted: Go toolchain/stdlib, harness; one start per side (a second start while an exchange is running is a protocol-inherent race and carries no obligation); release of queued texts is decided by C18",
      "DESIGN.md section 5 C07")

claim("C08", SIM + "; oracle: reachability/erasure scan of the conversation's object graph after every call against a retention model",
      "After every API call of PRNG-generated session histories (rotations, refresh, abandoned AKE, SMP, End, peer disconnect, loss) the object graph reachable from the Conversation is walked (reflect+unsafe, slices to capacity, big.Int words in both byte orders) and searched for every secret the party drew from its randomness source and every text it was given; "
      "a model written from the statement says which may remain (two newest DH keys, AKE in progress, queued texts, the last message). Aliased read buffers are checked for in-place erasure.",
      "trusted: Go toolchain/stdlib, harness walker; invisible: copies in temporaries outside the conversation graph; fragmentation off so emitted message kinds are classifiable",
      "DESIGN.md section 5 C08")

claim("C10", SIM + "; oracle: shadow execution of an independent reference implementation (refotr) fed the same inputs and random draws; byte equality of AKE messages, field/crypto equality of data messages; reference as live peer for the reverse direction",
      "Every message emitted by a real Conversation in PRNG-generated mixed histories is strictly parsed and re-serialised (identical bytes), AKE messages must equal the bytes the reference produces from the same secrets, data messages must carry the key ids, next key, counter, MAC, ciphertext and TLV layout the reference's state prescribes; SSID, fingerprint, highlight and extra symmetric key must agree. "
      "In half of the runs the reference is the live peer: otr3 must accept and read what it builds and vice versa.",
      "trusted: refotr as a faithful reading of the OTR v2/v3 specification (DESIGN.md appendix B), Go stdlib crypto (shared by both implementations)",
      "DESIGN.md section 5 C10")

claim("C02", SIM + "; oracle: provenance of every returned plaintext and of every TLV effect (harness knows what each party emitted, what the attacker changed, which session it belongs to)",
      "An attacker with 22 structure-aware data-message mutators (every field, bit flips, truncation/extension, armour damage, re-MAC with every MAC key disclosed on the wire, of pairs the victim has retired, or of other sessions; fresh forgeries), replay and clear-text injection acts on PRNG-chosen messages in flight in PRNG-generated sessions. "
      "Every plaintext returned must be the text of an authentic, unmodified message of the current session; messages whose authenticated range or MAC changed must yield no plaintext, no SMP/security/key event and no data reply.",
      "trusted: harness bookkeeping of wire provenance, refotr for key derivation; tolerant reading of the unauthenticated remainder (bytes after the MAC) is accepted either way",
      "DESIGN.md section 5 C02")

claim("C05", SIM + " (a fifth of the runs with the reference implementation as a foreign peer that sends what otr3 never sends: text with the ignore-unreadable flag, text with TLVs); oracle: exactly-once accounting on unique texts, no-effect rule for re-deliveries of accepted messages",
      "Duplicating/reordering network with an archive of all wire messages and fragments; PRNG-chosen duplication, out-of-order delivery and replay (at once, after more traffic and rotations, after End + new AKE), including TLV-only messages. "
      "Each text is returned at most once per receiver; a re-delivered data message that was accepted before yields no plaintext, no SMP/security/key event, no data reply.",
      "trusted: harness bookkeeping; uniqueness of generated texts",
      "DESIGN.md section 5 C05")

claim("C06", SIM + "; oracle: twin-run behavioural equality (same continuation with and without the rejected message, victim's randomness rewound)",
      "A pair is driven to a PRNG-chosen state (plaintext, AKE stages, fresh, rotated, SMP pending, finished, refresh in progress); one rejected message X (9 classes: mutated/forged/replayed data, replayed/mutated AKE, version, tags, garbage, stray fragments) is delivered, then a PRNG-generated continuation of genuine traffic runs; a twin world runs the same continuation without X. "
      "The observation sequences (plaintext, error, events, IsEncrypted, SSID/fingerprint while encrypted, kinds of emitted messages) must be equal.",
      "trusted: harness; the rejection criterion is the statement's own (no plaintext, nothing to send but an optional OTR error); a well-formed message from another valid peer instance that binds an unbound conversation is not a rejection case (C15)",
      "DESIGN.md section 5 C06")

claim("C09", SIM + " (incl. single failures of the randomness source at PRNG-chosen reads, End + new session on the same conversations, a lying authenticated peer); oracles: omniscient key history of the shadow reference (owner pair and acceptance window of every disclosed key; completeness after flush) and, independent of the shadow, a forgery probe: every disclosed key is used at once to forge data messages to the discloser for all key-id pairs around those in use - none may be accepted",
      "In PRNG-generated interleavings (ping-pong, bursts, one-directional streams, refresh AKE) every 20-byte key in an old-MAC-keys field is attributed to a key pair of the discloser (all pairs of all sessions are known because the harness owns the randomness) and must lie outside the discloser's acceptance window at that moment; "
      "after a flush every receiving MAC key that verified a message and whose pair is retired must have appeared in some old-MAC-keys field.",
      "trusted: refotr key schedule and ratchet model; keys still live at the very end of a run are not demanded",
      "DESIGN.md section 5 C09")

claim("C01", SIM + "; oracle: first-principles re-validation of every accepted exchange from the party's own exponent and the messages delivered to it; provenance of the peer DH value; stability; agreement + probes",
      "Two real parties and an active attacker (reorder/duplicate/drop/replay across sessions, 12 AKE field mutators) plus Mallory as a protocol participant with her own key (commit/reveal mismatch, degenerate and boundary DH values with the matching shared secret, X blocks advertising the victim's peer key with her own or a garbage signature or over other DH values, relay between exchanges, refresh started and abandoned against an encrypted victim). "
      "Whenever a party enters a session, the harness re-derives the SSID from one of the party's own exponents and a DH value actually delivered to it, requires that value in range, and verifies MAC and DSA signature of the triggering message for the reported key; a session reporting honest Q's key must rest on a value Q drew; identity is stable while encrypted; ends sharing an exchange agree and can talk.",
      "trusted: refotr key schedule/X-block helpers and Go stdlib DSA; cryptographic strength is not tested",
      "DESIGN.md section 5 C01")

claim("C03", SIM + " (incl. single failures of the randomness source in a third of the runs, user texts that look like OTR protocol); oracle: wire monitor over every output of every API call (raw, base64-decoded, reassembled fragments) against a strict lifecycle model (leaving the encrypted state without End or the peer's disconnect keeps encryption due) + wrong-key decryption and key-stream reuse probes",
      "PRNG-generated lifecycle histories (plaintext, AKE in progress, encrypted, finished after peer End, own End, re-AKE, injected errors, crash/restart, SMP, extra key, fragment sizes) under PRNG-chosen policy sets for both parties. Every message any call returns is searched for every text the party was ever given; a readable occurrence is legitimate only for the text of the current Send in plaintext state without require-encryption. "
      "Send in finished state must emit nothing; under require-encryption only a query. Ciphertexts must not decrypt to the text under the zero key, the MAC key, the receiving key or a previous session's key.",
      "trusted: harness lifecycle tracking from observable events, refotr key derivation for the wrong-key probes",
      "DESIGN.md section 5 C03")

claim("C11", SIM + " (incl. restarts whose randomness read fails, questions that cannot be encoded, long secrets differing late); oracle: outcome table per SMP run (success iff secrets byte-equal and same session); relay world must never succeed; a start that reports success must get the peer asked",
      "Two honest real parties run SMP repeatedly with PRNG-chosen secrets (equal, one bit apart, empty, 1 byte, 4 KiB, binary), questions, initiator, answer delay, restarts by the initiator and counter-requests by the side that is being asked, and ordinary traffic/heartbeats/rotations interleaved between SMP steps; in a quarter of the runs a man in the middle (reference implementation, two separately keyed sessions) forwards the SMP TLVs unchanged. "
      "Equal secrets in one session: both report success; different: nobody reports success, responder reports failure, initiator failure or abort; relay: never success.",
      "trusted: harness run bookkeeping; refotr as the relay's protocol engine",
      "DESIGN.md section 5 C11")

claim("C12", SIM + "; oracle: no success event (the lying peer never knows the secret; in insider runs she does, and no run containing a deviant-but-verifying message - surplus values, exponents plus a multiple of q, fixed-point proofs for degenerate elements 0, 1, p-1, p, 2p - may succeed), no panic/hang, recovery run with equal secrets succeeds under three set-ups (who aborts, who starts)",
      "A real victim is in an authenticated encrypted session with a lying peer built on the reference implementation (all SMP exponents exported, verification switched off on its side). The peer sends honest-but-wrong-secret messages, messages with any MPI replaced by boundary values (proofs stale), messages built from forced exponents 0/1/q/q-1/q+1 (proofs recomputed), wrong counts / truncations / missing question terminator, out-of-sequence and duplicated messages and aborts, while the victim's user calls start/answer/abort at arbitrary points; a follow-up driver completes multi-step attacks. "
      "Any success event or panic on the victim is a violation; afterwards an honest run with equal secrets must succeed on both sides.",
      "trusted: refotr SMP engine (its honest path interoperates with otr3 in both roles, C10/C11); sampling of the (message, field, value) table, reported as probes",
      "DESIGN.md section 5 C12")

claim("C13", "deterministic simulation with fault injection: complete enumeration of the failing Rand read index k x 4 failure modes over a scripted scenario, enumeration of truncation / I/O-error offsets of the key file through a simulated reader, seeded exploration of hostile Receive input in 10 conversation states; monitors: recovered panic, wall-clock watchdog with seed attribution, per-call heap allocation bound; recovery probe",
      "(a) For a scripted scenario per version (AKE in both roles, traffic with rotation, SMP in both roles, extra key, End) the k-th read from Conversation.Rand fails for every k below the number of reads the scenario makes (28-30, measured and reported) in each of 4 modes; no call may panic and afterwards a fresh exchange and a message each way must work. "
      "(b) ImportKeys reads the exported key file through a simulated reader truncated at / failing at every offset (stride 7 in quick, 1 in thorough) in 1-byte, 13-byte and whole chunks, plus hostile files (deep/unbalanced parentheses, huge numbers, garbage); it must return, never with a key that was not exported. "
      "(c) A victim driven to one of 10 states receives PRNG-generated hostile input of 7 classes incl. authenticated-but-malicious payloads built by the reference peer (single malformed TLVs and sequences of two or three well-formed TLVs - disconnect, padding, SMP 1/1Q/2/3/4, abort, extra key, unknown - in one message); the public parsers get the same bytes. Fatal runtime errors (stack overflow, out of memory, hang) kill the worker and are attributed to the seed.",
      "trusted: harness monitors; allocation bound 16 MiB + 64 x input per call; stack depth proportional to input is not flagged unless the process dies",
      "DESIGN.md section 5 C13", category="fault_enumeration")

claim("C14", SIM + "; oracles: twin world without fragmentation (same seed, same messages) for the sender; the specification's reassembly rule as executable model + shadow reference for the receiver",
      "Sender: twin worlds (fragment size s vs none) send texts up to 70 000 bytes with s from the minimum that leaves one payload byte up to 65535; each piece must be <= s, strictly well-formed, numbered 1..n, carry the right tags, and reassemble to exactly the twin's bytes; the peer returns each text exactly once. "
      "Receiver: an attacker drops, duplicates, reorders, restarts, interleaves whole messages and injects 12 kinds of crafted fragments, with injections biased to land right after a stream completed; a fragment that does not complete a message by the reassembly rule must leave no sign of processing (plaintext, reply, event, error), texts are returned at most once, and the shadow reference must agree on every delivery.",
      "trusted: refotr fragment parser/reassembler (spec rule); harness; piece counts are capped at 4000 in quick and 65000 in thorough",
      "DESIGN.md section 5 C14")

claim("C15", SIM + "; oracle: binding/isolation rules evaluated on every delivery from the tags the harness put on the wire; public helper compared with an independent header reader",
      "Alice, two instances of Bob (same key, different tags) and an attacker who re-tags genuine messages and fragments with 12 tag combinations in every state and order; adversarial randomness for the own-tag generator. Own tag >= 0x100; the peer tag only ever changes from unknown to the sender tag of a message with valid tags addressed to this conversation; once bound, foreign or malformed-tag traffic yields no plaintext, reply, security/SMP/key event or session change; a genuine instance still completes the handshake; a fresh client of Alice's account that has not generated its own tag yet ignores (no plaintext, reply, binding or session) everything the peer addressed to Alice; ExtractInstanceTags agrees with the header of every emitted message and fragment.",
      "trusted: harness; a well-formed message from an unknown valid instance binds an unbound conversation by design and is not counted as an attack",
      "DESIGN.md section 5 C15")

claim("C16", "deterministic simulation of one negotiation per configuration; the thorough tier enumerates the whole configuration product (64 x 64 policy sets x 19 offer forms = 77 824), the quick tier samples it; oracle: executable negotiation model + byte-exact pass-through checks",
      "Per configuration: version containment on every emitted message and offered version; the offered versions intersected with the receiver's policy decide whether and in which version a DH-Commit is sent (highest common version, at the first commitment); offers without a common version and DH-Commits of forbidden/unknown versions are not acted on; parties sharing the model's version end encrypted and can talk; with no version allowed Send/Receive return their argument byte-exact for OTR-looking and binary inputs; marker-free text is returned byte-exact in plaintext state and a tagged one with exactly the tag removed.",
      "trusted: the negotiation model (30 lines, written from the statement); thorough = exhaustive over the stated product, quick = sample",
      "DESIGN.md section 5 C16")

claim("C18", SIM + " (incl. single failures of the randomness source in a quarter of the runs); oracle: executable lifecycle model per party (state, queue, per-session last message, error-reported flag) + transmission accounting on the decrypted wire + error reply to data messages outside a session",
      "PRNG-generated lifecycle histories on both sides (start/complete/abandon AKE, Send in every state, End, peer End, genuine and injected error messages, refresh, crash/restart, loss, ticks) under PRNG-chosen policy sets. After every call: the security events must be exactly those of the observed IsEncrypted/SSID transition; entering the encrypted state only by the final AKE message, leaving it only by End() or the peer's disconnect; Send's outcome class must be the model's (clear / queued+query / data / refused); every text is transmitted at most once, queued texts exactly once, in order, in the call that starts the session, and a second transmission is allowed only for the most recent message after an error report, once, marked as resent.",
      "trusted: lifecycle model written from the statement; shadow reference for decrypting emitted data messages (undecodable ones are counted and their history exempted)",
      "DESIGN.md section 5 C18")

claim("C19", SIM + "; oracle: bytes reachable from the conversation (object-graph walker) and longest emitted message, compared at n, 2n, 4n, 8n",
      "Eight traffic patterns (ping-pong, one-directional, bursts, floods of forged data messages, garbage floods, repeated refresh AKEs, repeated SMP runs, error messages) x version x fragment size are run to 512 messages (thorough: up to 4096); at checkpoints 64/128/256/512 the pair is brought to a quiescent canonical point and the reachable bytes of each conversation and the longest message emitted for a fixed-length text are recorded. "
      "A violation needs growth above 2 KiB (64 bytes for messages) at every doubling; the fastest-growing field path is reported.",
      "trusted: the walker (reflect+unsafe from outside the package); slack calibrated on the repaired tree (observed jitter < 600 bytes)",
      "DESIGN.md section 5 C19")

claim("C20", SIM + " of a cooperative goroutine scheduler (one goroutine per conversation pair, parked before every API call, PRNG picks who proceeds) + free-running parallel execution under the Go race detector with no harness synchronisation + a bare-conversation hammer (5..8 goroutines driving the same life cycle at the same moment), conversations of an account sharing one key object; oracle: transcript equality with the solo run replaying the same clock readings, no mutation of memory already handed to a caller, zero race reports",
      "3..6 independent conversation pairs (handshake, traffic with rotations, errors, SMP, fragmentation, End/restart). Mode 0: each pair on its own goroutine, a seeded scheduler interleaves their API calls and clock ticks (replayable, shrinkable); every pair's full transcript must equal its solo run and no message returned earlier may change while another pair runs. "
      "Mode 1: the same pairs free-running on parallel goroutines in a -race build; any race report kills the worker and is reported with the seed; transcripts are compared with the solo runs as well.",
      "trusted: Go race detector (can miss, cannot invent, a race); harness worlds share no mutable state; mode 1 schedules are not controlled, its findings are reported by seed without a minimised schedule",
      "DESIGN.md section 5 C20")

_todo = "check not built yet in this session (see DESIGN.md section 12 build order)"
for pid in [ "C11", "C12", "C13", "C14", "C15", "C16", "C18", "C19", "C20"]:
    NA[pid] = _todo
NA["C17"] = ("pure function of one input (parse(serialise(x)) = x): no schedule, clock, fault, peer or history for a simulator to vary; "
             "deterministic simulation does not apply (DESIGN.md section 5 C17)")
