# Table of claims; executed by mkmanifest.py (claim(), NA, HOOK_COMMITS, NOTES).

HOOK_COMMITS = []
NOTES = ("All checks are one simulator binary (/verif/sim, built by ./check from /repo's working tree with go1.26.8). "
         "exit 0 = held on everything explored, 1 = VIOLATION line with replay file, 2 = harness/build trouble. "
         "Known findings are listed in /verif/known_findings.json and printed as KNOWN-FINDING lines.")

SIM = "deterministic simulation with fault injection (seeded scheduler, simulated network/clock/randomness, replayable minimised traces)"

claim("C04", SIM + "; oracle: per-direction sequence equality at every step and at quiescence",
      "Seeded exploration of interleavings of Send/deliver/tick/SMP/extra-key/fragment-size steps on two real Conversations over reliable FIFO links; "
      "after every step the texts returned are a prefix of the texts sent, at quiescence they are equal. Sampling, not enumeration: a clean batch is evidence, not proof.",
      "trusted: Go toolchain and stdlib, the harness (Party wrapper, SimNet FIFO); premise of the property (reliable FIFO, NUL-free non-empty texts) is built into the generator",
      "DESIGN.md section 5 C04")

claim("C07", SIM + "; oracle: bounded liveness to one common session at quiescence (SSID, highlight, fingerprints, probes)",
      "Seeded exploration of start patterns (A, B, both; query, whitespace tag, error restart, Send under require-encryption; fresh or refresh after >60 s) x policy pairs x interleavings of two FIFO queues with clock ticks; "
      "at quiescence both sides must be encrypted in one new common session, and probe texts must flow both ways. Known finding (DH-Commit collision deadlock) is matched by shape and reported as KNOWN-FINDING.",
      "trusted: Go toolchain/stdlib, harness; one start per side (a second start while an exchange is running is a protocol-inherent race and carries no obligation); release of queued texts is decided by C18",
      "DESIGN.md section 5 C07")

_todo = "check not built yet in this session (see DESIGN.md section 12 build order)"
for pid in ["C01", "C02", "C03", "C05", "C06", "C08", "C09", "C10", "C11", "C12", "C13", "C14", "C15", "C16", "C18", "C19", "C20"]:
    NA[pid] = _todo
NA["C17"] = ("pure function of one input (parse(serialise(x)) = x): no schedule, clock, fault, peer or history for a simulator to vary; "
             "deterministic simulation does not apply (DESIGN.md section 5 C17)")
