#!/bin/bash
# Determinism self-test: for every property, the event-log digests of the first N generated
# runs must be identical across processes and GOMAXPROCS settings.
# usage: tools/selftest_determinism.sh [N] [props...]
cd "$(dirname "$0")/.."
export GOFLAGS=-mod=mod GOPROXY=off GOSUMDB=off GOTOOLCHAIN=local
N=${1:-12}; shift
props=${@:-$(python3 -c "import json;print(' '.join(c['property_id'] for c in json.load(open('MANIFEST.json'))['checks']))")}
GO=/opt/veriftools/go1.26.8/bin/go
mkdir -p .build
( cd sim && $GO test -tags verif -c -o ../.build/det.test . ) || exit 2
fail=0
for p in $props; do
  ref=""
  for mp in 1 4 16; do
    for rep in 1 2; do
      out=$(GOMAXPROCS=$mp VERIF_ROLE=digest VERIF_PROP=$p VERIF_MAXRUNS=$N VERIF_SEED=${VERIF_SEED:-1} .build/det.test -test.run '^TestSim$' -test.timeout 0 2>/dev/null | grep '^DIGEST' | md5sum)
      if [ -z "$ref" ]; then ref="$out"; elif [ "$out" != "$ref" ]; then echo "NONDETERMINISTIC $p (GOMAXPROCS=$mp rep=$rep)"; fail=1; fi
    done
  done
  echo "$p deterministic over $N runs x 6 processes (GOMAXPROCS 1,4,16): $ref"
done
rm -f .build/det.test
exit $fail
