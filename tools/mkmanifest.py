#!/usr/bin/env python3
"""Regenerates /verif/MANIFEST.json from the table below and validates it."""
import json, os, sys

V = os.path.dirname(os.path.dirname(os.path.abspath(__file__)))

# id -> (level category, technique, level text, level note, design ref)
CLAIMED = {}
NA = {}

def claim(pid, technique, text, note, ref, category="exploration"):
    CLAIMED[pid] = dict(technique=technique, text=text, note=note, ref=ref, category=category)

exec(open(os.path.join(V, "tools", "claims.py")).read())

props = [json.loads(l) for l in open(os.path.join(V, "properties.jsonl"))]
checks = []
for p in props:
    pid = p["id"]
    if pid in CLAIMED:
        c = CLAIMED[pid]
        checks.append({
            "property_id": pid,
            "quick_cmd": "./check %s quick" % pid,
            "thorough_cmd": "./check %s thorough" % pid,
            "evidence_file": "/verif/evidence/%s.json" % pid,
            "replay_cmd_template": "./check replay {path}",
            "engine": "otr3-sim",
            "level_claimed": {"category": c["category"], "text": c["text"], "design_ref": c["ref"]},
            "level_note": c["note"],
            "technique": c["technique"],
        })
na = [{"property_id": p["id"], "reason": NA[p["id"]]} for p in props if p["id"] not in CLAIMED]
for x in na:
    assert x["reason"]
m = {
    "version": 1,
    "setup_cmd": "./check build",
    "hooks": {
        "guard": "verif",
        "enable": "go test -tags verif (no hook exists in /repo: every seam the simulator needs - Conversation.Rand, time.Now via testing/synctest, caller-mediated network, io.Reader - is already public)",
        "baseline_off_cmd": "cd /repo && go test -vet=off -count=1 -timeout 25m ./...",
        "source_commits": HOOK_COMMITS,
        "add_only": True,
    },
    "engines": [{
        "name": "otr3-sim",
        "path": "/verif/sim",
        "serves_properties": sorted(CLAIMED),
        "kind_free_text": "deterministic simulation with fault injection: real otr3 Conversations, simulated network/clock/randomness/crash, seeded scheduler, ddmin shrinking, exact replay; independent reference implementation (refotr) as oracle and as adversarial peer",
    }],
    "checks": checks,
    "not_applicable": na,
    "notes": NOTES,
}
json.dump(m, open(os.path.join(V, "MANIFEST.json"), "w"), indent=1)
try:
    import jsonschema
    jsonschema.validate(m, json.load(open("/root/.vp/MANIFEST.schema.json")))
    print("MANIFEST.json valid; claimed:", sorted(CLAIMED), "n/a:", [x["property_id"] for x in na])
except ImportError:
    print("jsonschema not importable; written without validation")
